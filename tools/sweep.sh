#!/bin/sh
# tools/sweep.sh <tier> <seed>...   : run every claimed check with each seed; summary of non-zero exits.
cd "$(dirname "$0")/.." || exit 2
TIER=$1; shift
PROPS=$(python3 -c "import json; print(' '.join(c['property_id'] for c in json.load(open('MANIFEST.json'))['checks']))")
bad=0
for seed in "$@"; do
    for p in $PROPS; do
        out=$(VERIF_SEED=$seed ./check "$p" "$TIER" 2>&1); code=$?
        echo "seed=$seed $p exit=$code $(printf '%s\n' "$out" | grep -E '^property=' | tail -1)"
        if [ $code -ne 0 ]; then
            bad=$((bad+1))
            printf '%s\n' "$out" | grep -E '^(VIOLATION|HARNESS-ERROR)' | cut -c1-600
            # keep the replay files of this seed
            mkdir -p sweep-replays && cp replays/*-"$seed"-*.json sweep-replays/ 2>/dev/null
        fi
    done
done
echo "sweep done: $bad non-zero exits"
[ $bad -eq 0 ]
