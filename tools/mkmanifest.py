#!/usr/bin/env python3
"""Regenerate /verif/MANIFEST.json from the table below (keeps it valid at all times)."""
import json, os, subprocess
HERE = os.path.dirname(os.path.dirname(os.path.abspath(__file__)))

CLAIMED = {
 "C01": ("exploration", "5.C01", "refinement of simulated multi-file builds (seeded schedules over the two-pass coordinator) against a small executable reference model written from the README (R-spec)",
         "R-spec shares no code with txtpp and is shaped differently (items + declarative concatenation vs streaming pending-newline state machine). Multi-file runs exercise first-pass/second-pass re-execution and dependency outputs read from disk under seeded schedules; single-file runs are plain seeded generation and are reported separately in the evidence. Cases outside the documented domain (DESIGN.md 4.3) are skipped and counted; when a source ends with a directive, outputs are compared modulo trailing line endings."),
 "C02": ("exploration", "5.C02", "seeded schedule search over a parked-thread controller; differential oracle vs one-file-at-a-time reference (R-seq) plus in-run probes of what commands saw",
         "Real coordinator, pool threads, channel and preprocessor run under a seeded scheduler that owns every synchronisation point (task begin, task end before send, coordinator poll, optional io points); every generated path is pre-populated with stale bytes. Holds for the sampled (project, inputs, K, schedule) tuples; all labelled DAGs on <=4 files are swept in every run."),
 "C03": ("exploration", "5.C03", "seeded schedule search; deterministic livelock/step-cap/watchdog detectors; execution counters (marker commands) and R-seq completeness",
         "Termination is decided without wall-clock: after the last delivery the coordinator must leave each loop on its next poll. Exactly-once is counted through side-effect markers of run commands. Sampled digraphs (cyclic ones included), duplicate and aliased inputs, K in {1,2,3,4,8,16}."),
 "C04": ("fault_enumeration", "5.C04", "enumerated grid fault kind x position x mode, each cell instantiated on seeded DAG projects under seeded schedules; real OS faults (EISDIR, ENOENT, ENOSPC via /dev/full, unwritable /proc target, invalid UTF-8, RLIMIT_FSIZE); plus an errno at every system-call position of the real binary (strace inject, positions taken from a recorded run); CLI exit status cross-check",
         "265 cells (19 fault kinds x 5 positions x the modes in which the fault is meaningful, DESIGN.md C04 table), about 22 cases per cell per quick run (2 schedules per generated instance); the failing result reaches the coordinator first / last / between others with and without tasks in flight (early return and Drop drain). RLIMIT_FSIZE (F8) is applied in-process around the simulated run with byte-exact limits derived from the sizes a reference build produces; every 8th case is repeated through the real binary."),
 "C05": ("exploration", "5.C05", "seeded schedule search over cyclic digraph projects; verdict + liveness + acyclic part vs R-seq",
         "Self-loops, 2-cycles, longer cycles, upstream files and bystanders under seeded schedules; thorough tier sweeps every labelled digraph with self-loops on <=4 files."),
 "C06": ("exploration", "5.C06", "seeded histories (build, verify, single-point tampering / flag flip / source edit, verify) with every invocation under the controller; oracle = fresh R-seq of the current sources + inode/mtime-exact snapshot diff",
         "Verify verdict is compared with an independently computed 'is every stored output of the closure byte-equal to a fresh sequential build' predicate; read-only-ness is checked on inode, mtime sentinel and bytes of every output path."),
 "C07": ("exploration", "5.C07", "seeded histories (build, clean, clean) with whole-tree snapshots and command execution markers, every invocation under the controller",
         "Whole-tree comparison against the pre-build snapshot, marker files prove no command ran, projects with directive errors included. The documented limitation that clean does not follow dependencies is listed as known finding K1 (exact signature); everything else is a violation."),
 "C08": ("fault_enumeration", "5.C08", "crash images at scheduler steps with torn files + dirty pre-state classes at every generated path, repaired by a build that is compared with the same build (same schedule seed) from a pristine tree; plus SIGKILL at every system-call position (openat / write / rename / unlink) of the real binary (strace inject), then rebuild; stragglers of a returned run carried into the next run",
         "Fault classes enumerated per case: pre-state class per generated path (absent, stale, empty, prefix at char boundary, prefix inside a character, random valid / invalid UTF-8), crash point = scheduler step (seeded, all K), torn-file choice per file written by the interrupted action. Schedules and projects are sampled."),
 "C09": ("exploration", "5.C09", "twin simulated runs (build vs --needed) from an identical checkpointed pre-state under the same schedule seed; inode + mtime-sentinel comparison; twin runs of the real binary from the tree a SIGKILL at a system call left (strace inject)",
         "Pre-states mix up-to-date, stale, missing, torn and non-UTF-8 generated files after source edits and tampering."),
 "C10": ("exploration", "5.C10", "whole-tree snapshot diff (bytes, inode, mtime) around every simulated invocation in all four modes, failing projects and decoys included; the same diff around runs of the real binary in which one system call fails or at which the process is killed (strace inject: errno, SIGKILL)",
         "No schedule occurs in the statement; the simulator contributes the executions (all modes, all verdicts, dirty trees) around which the diff is taken."),
 "C11": ("exploration", "5.C11", "seeded trees x input lists x recursion x base/cwd under seeded schedules of scan and preprocess tasks; oracle = set semantics of input resolution (R-inputs) + README naming rule + whole-tree diff + execution markers",
         "The schedule-dependent part is the coordinator's seen-set under interleaved ScanDir/Preprocess results; naming and classification are checked as a by-product on every generated tree."),
 "C17": ("exploration", "5.C17", "swarm over (process cwd, base dir, depth, shell, entry point) per simulated run; oracles on captured pwd / TXTPP_FILE / argument shown by a printf shell / exit status; CLI guard through the real binary",
         "No schedule occurs in the statement; the simulator contributes the per-run draw of every environment knob. CLI cases run the real binary under OS scheduling and assert only schedule-independent facts."),
 "C18": ("exploration", "5.C18", "token- and byte-level fuzzed projects x modes x thread counts 0..16 under the controller: panic hook on every thread + deterministic livelock / task-cap / watchdog detectors + worker-process death detection",
         "The liveness half is what simulation adds: a worker that dies leaves done < total forever, which the controller reports at once with the schedule instead of as a timeout. Fuzzed command text is never executed (shell is echo / false / non-existent)."),
}

NA = {
 "C12": "pure function of one source text (line-ending normalisation): no schedule, clock, fault, crash point or interleaving for a simulator to vary; DESIGN.md section 6",
 "C13": "pure function of (source text, one boolean option): nothing for a scheduler or fault injector to vary; DESIGN.md section 6",
 "C14": "pure function of the line sequence; HashMap order is erased by a position sort; quantifier is bounded-exhaustive enumeration, a different technique; DESIGN.md section 6",
 "C15": "pure function of one or two lines; quantifier is bounded-exhaustive enumeration, a different technique; DESIGN.md section 6",
 "C16": "pure function of the source text; DESIGN.md section 6",
}

def hook_commits():
    try:
        out = subprocess.run(["git", "-C", "/repo", "log", "--format=%H %s"], capture_output=True, text=True).stdout
    except Exception:
        return []
    return [l.split()[0] for l in out.splitlines() if "verif" in l.lower() and not l.split(" ",1)[1].startswith("fix:")]

checks = []
for pid, (level, ref, technique, text) in sorted(CLAIMED.items()):
    checks.append({
        "property_id": pid,
        "quick_cmd": f"./check {pid} quick",
        "thorough_cmd": f"./check {pid} thorough",
        "evidence_file": f"/verif/evidence/{pid}.json",
        "replay_cmd_template": "./check replay {path}",
        "engine": "txtpp-sim",
        "level_claimed": {"category": level, "text": text, "design_ref": f"DESIGN.md section {ref}"},
        "level_note": "Trusted base: the add-only hooks behind cargo feature `verif` (park threads, permute two unordered collections), the harness controller, and for every property except C01 (whose reference is the independent R-spec model) txtpp's own per-file preprocess() used as sequential reference. Sampling, not proof.",
        "technique": "deterministic simulation with fault injection: " + technique,
    })

m = {
    "version": 1,
    "setup_cmd": "./check build",
    "hooks": {
        "guard": "verif",
        "enable": "cargo feature `verif` of the txtpp crate: /verif/sim depends on txtpp by path with features=[\"verif\"], default-features=false; ./check rebuilds it from /repo's working tree on every invocation",
        "baseline_off_cmd": "cd /repo && cargo test --workspace --no-fail-fast --offline",
        "source_commits": hook_commits(),
        "add_only": True,
    },
    "engines": [
        {"name": "txtpp-sim", "path": "/verif/sim", "serves_properties": sorted(CLAIMED),
         "kind_free_text": "Rust harness: seeded controller over the real txtpp threads parked at hook points, scratch-tree environment faults, reference models, minimiser, replay"},
    ],
    "checks": checks,
    "not_applicable": [{"property_id": k, "reason": v} for k, v in sorted(NA.items()) if k not in CLAIMED],
    "notes": "Exit codes of every check: 0 held, 1 VIOLATION line(s) printed, 2 harness error. VERIF_SEED selects the seed (default 20261004). Known findings are listed in /verif/known_findings.json (one known: K1; seven fixed by `fix:` commits in /repo: D1-D7, replays under /verif/findings). The syscall-level cases of C04, C08, C09 and C10 need /usr/bin/strace with ptrace allowed and are skipped with a WARNING otherwise. Seeded property-breaking changes and what catches them: /verif/seeded/<id>/meta.json and DESIGN.md 16.2, 17.5-17.10b.",
}
json.dump(m, open(os.path.join(HERE, "MANIFEST.json"), "w"), indent=1)
print("MANIFEST.json written:", len(checks), "checks,", len(m["not_applicable"]), "not applicable")
