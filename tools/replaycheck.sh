#!/bin/sh
# tools/replaycheck.sh <mutant.diff> <property>...
# Runs the checks against the mutant in the scratch copy, then replays every replay file they
# wrote in a fresh process: each must reproduce (exit 1, same class).
SCR=${MUT_SCRATCH:-/tmp/txtpp-mut}
P=$1; shift
cd /verif || exit 2
rm -rf "$SCR/replays"
tools/mutants.sh 3000 "$P" "$@"
ok=0; bad=0
for f in "$SCR"/replays/*.json; do
    [ -f "$f" ] || continue
    want=$(python3 -c "import json,sys; r=json.load(open(sys.argv[1])); print(r['violation']['class'], r['minimised'])" "$f")
    out=$(cd "$SCR/sim" && VERIF_DIR="$SCR" VERIF_CLI="$SCR/sim/target-cli/release/txtpp" ./target/release/txtpp-sim replay "$f" 2>&1); code=$?
    got=$(printf '%s\n' "$out" | grep '^VIOLATION' | sed 's/.*class=\([^ ]*\).*/\1/' | head -1)
    if [ $code -eq 1 ] && [ "$got" = "${want% *}" ]; then ok=$((ok+1)); else bad=$((bad+1)); echo "REPLAY MISMATCH $(basename $f): want $want, exit $code got '$got'"; fi
done
echo "replays reproduced: $ok, not reproduced: $bad"
