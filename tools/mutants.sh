#!/bin/sh
# tools/mutants.sh [-t] <runs> <mutant.diff> <property>...
# Sensitivity check in a scratch copy (outside /repo and /verif): applies the patch to a copy of
# /repo, optionally runs the baseline suite there (-t), builds a copy of the harness against it and
# runs the quick checks of the given properties with VERIF_RUNS=<runs>. One line per property.
# The scratch copy is kept between calls for incremental builds; remove it with: tools/mutants.sh --clean
SCR=${MUT_SCRATCH:-/tmp/txtpp-mut}
if [ "$1" = "--clean" ]; then rm -rf "$SCR"; exit 0; fi
TESTS=0
if [ "$1" = "-t" ]; then TESTS=1; shift; fi
RUNS=$1; PATCH=$(readlink -f "$2"); shift 2
mkdir -p "$SCR"
rsync -a --delete --exclude target /repo/ "$SCR/repo/"
# the harness as committed (edits in progress in /verif/sim do not leak into a running batch)
if [ "${MUT_WORKTREE:-0}" = 1 ]; then
    # the harness as it is in the working tree (uncommitted edits included)
    mkdir -p "$SCR/export/sim" && rsync -a --delete --exclude target --exclude target-cli /verif/sim/ "$SCR/export/sim/" && cp /verif/known_findings.json "$SCR/export/"
else
mkdir -p "$SCR/export" && git -C /verif archive HEAD sim known_findings.json | tar -x -C "$SCR/export"
fi
rsync -a --delete --exclude target --exclude target-cli "$SCR/export/sim/" "$SCR/sim/"
sed -i "s|path = \"/repo\"|path = \"$SCR/repo\"|" "$SCR/sim/Cargo.toml"
cp "$SCR/export/known_findings.json" "$SCR/known_findings.json"
name=$(basename "$PATCH" .diff)
(cd "$SCR/repo" && git checkout -q -- . && git apply "$PATCH") || { echo "$name patch does not apply"; exit 2; }
export CARGO_NET_OFFLINE=true RUST_BACKTRACE=0
if [ $TESTS = 1 ]; then
    if (cd "$SCR/repo" && timeout 300 cargo test --workspace --no-fail-fast --offline >/dev/null 2>&1); then
        echo "$name baseline-tests=pass"
    else
        echo "$name baseline-tests=FAIL"
    fi
fi
if ! (cd "$SCR/sim" && cargo build --release --offline >"$SCR/build.log" 2>&1); then
    echo "$name harness build failed (see $SCR/build.log)"; exit 2
fi
(cd "$SCR/sim" && cargo build --release --offline --manifest-path "$SCR/repo/Cargo.toml" --bin txtpp --target-dir "$SCR/sim/target-cli" >"$SCR/build-cli.log" 2>&1)
for p in "$@"; do
    if [ "$RUNS" = "-" ]; then unset VERIF_RUNS; else export VERIF_RUNS=$RUNS; fi
    out=$(cd "$SCR/sim" && VERIF_DIR="$SCR" VERIF_CLI="$SCR/sim/target-cli/release/txtpp" ./target/release/txtpp-sim check "$p" quick 2>&1); code=$?
    cls=$(printf '%s\n' "$out" | grep '^VIOLATION' | sed 's/.*class=\([^ ]*\).*/\1/' | sort -u | tr '\n' ',')
    echo "$name $p exit=$code ${cls}"
done
