#!/bin/sh
# tools/mutants.sh [-t] <runs> <mutant.diff> <property>...
# Applies a patch to /repo, optionally runs the baseline suite (-t), runs the quick checks of the
# given properties with VERIF_RUNS=<runs>, prints one line per property, reverts /repo.
cd /verif || exit 2
TESTS=0
if [ "$1" = "-t" ]; then TESTS=1; shift; fi
RUNS=$1; PATCH=$(readlink -f "$2"); shift 2
if [ -n "$(git -C /repo status --porcelain)" ]; then echo "refusing: /repo is dirty"; exit 2; fi
trap 'git -C /repo checkout -- . ; git -C /repo clean -fdq src tests 2>/dev/null' EXIT INT TERM
git -C /repo apply "$PATCH" || { echo "patch does not apply: $PATCH"; exit 2; }
name=$(basename "$PATCH" .diff)
if [ $TESTS = 1 ]; then
    if (cd /repo && timeout 300 cargo test --workspace --no-fail-fast --offline >/dev/null 2>&1); then
        echo "$name baseline-tests=pass"
    else
        echo "$name baseline-tests=FAIL"
    fi
fi
for p in "$@"; do
    out=$(VERIF_RUNS=$RUNS ./check "$p" quick 2>&1); code=$?
    cls=$(printf '%s\n' "$out" | grep '^VIOLATION' | sed 's/.*class=\([^ ]*\).*/\1/' | sort -u | tr '\n' ',')
    echo "$name $p exit=$code ${cls}"
done
