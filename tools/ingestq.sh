#!/bin/sh
# tools/ingestq.sh <suffix> "<prop> <n> [others]" ...  : ingest several deliveries, 3 at a time
SUF=$1; shift
for a in "$@"; do echo "$a"; done | xargs -P 3 -I{} sh -c 'set -- {}; /verif/tools/ingest.sh '"$SUF"' "$@" > /dev/shm/ing-$1-$2.log 2>&1'
