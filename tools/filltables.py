#!/usr/bin/env python3
"""Fill the <!--TABLE-D/E/F--> markers of DESIGN.md with the rows tools/mkseedmeta.py prints
(one table per round of seeded changes). Idempotent: a table already present is replaced."""
import re, subprocess, os
HERE = os.path.dirname(os.path.dirname(os.path.abspath(__file__)))
out = subprocess.run(["python3", os.path.join(HERE, "tools/mkseedmeta.py")], capture_output=True, text=True).stdout
rows = [l for l in out.splitlines() if l.startswith("| C")]
p = os.path.join(HERE, "DESIGN.md")
s = open(p).read()
head = "| id | change | caught by target check | all alarms observed (property:classes) |\n|----|--------|------------------------|-----------------------------------------|\n"
for tag, suf in (("D", "d-"), ("E", "e-"), ("F", "f-"), ("G", "g-"), ("H", "h-")):
    body = "\n".join(r for r in rows if re.match(r"\| C\d\d%s\d " % suf, r))
    block = "<!--TABLE-%s-->\n%s%s\n<!--END-TABLE-%s-->" % (tag, head, body, tag)
    if "<!--END-TABLE-%s-->" % tag in s:
        s = re.sub(r"<!--TABLE-%s-->.*?<!--END-TABLE-%s-->" % (tag, tag), lambda m: block, s, flags=re.S)
    else:
        s = s.replace("<!--TABLE-%s-->" % tag, block)
open(p, "w").write(s)
print("tables filled:", len(rows), "rows in all rounds")
