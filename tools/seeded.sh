#!/bin/sh
# tools/seeded.sh <seeded-dir> <runs> <property>...
# Confirms a seeded change in a scratch copy (suite passes with it; its demonstration fails with it
# and passes without it), then runs the quick checks of the given properties against it.
# Writes <seeded-dir>/result.txt. Nothing is applied to /repo itself.
SCR=${MUT_SCRATCH:-/tmp/txtpp-mut}
D=$(readlink -f "$1"); RUNS=$2; shift 2
P="$D/patch.rebased.diff"; [ -f "$P" ] || P="$D/patch.diff"
mkdir -p "$SCR"
rsync -a --delete --exclude target /repo/ "$SCR/repo/"
export CARGO_NET_OFFLINE=true RUST_BACKTRACE=0
R="$D/result.txt"; : > "$R"
cd "$SCR/repo" || exit 2
git checkout -q -- . ; rm -f tests/demo.rs
demo() { # run the demonstration; prints pass/fail
    if [ -f "$D/demo.rs" ]; then
        cp "$D/demo.rs" tests/demo.rs
        if timeout 900 cargo test --offline --test demo >"$SCR/demo.log" 2>&1; then echo pass; else echo fail; fi
        rm -f tests/demo.rs
    elif [ -f "$D/demo.sh" ]; then
        cargo build --offline >/dev/null 2>&1
        if timeout 900 sh "$D/demo.sh" "$SCR/repo/target/debug/txtpp" >"$SCR/demo.log" 2>&1; then echo pass; else echo fail; fi
    else
        echo none
    fi
}
echo "demo without change: $(demo)" | tee -a "$R"
git apply "$P" || { echo "patch does not apply" | tee -a "$R"; exit 2; }
if timeout 600 cargo test --workspace --no-fail-fast --offline >"$SCR/suite.log" 2>&1; then
    echo "suite with change: pass ($(grep -c '\.\.\. ok' "$SCR/suite.log") tests ok)" | tee -a "$R"
else
    echo "suite with change: FAIL" | tee -a "$R"
fi
echo "demo with change: $(demo)" | tee -a "$R"
git checkout -q -- .
cd /verif || exit 2
tools/mutants.sh "$RUNS" "$P" "$@" | sed "s|^patch[^ ]* ||" | tee -a "$R"
