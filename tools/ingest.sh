#!/bin/sh
# tools/ingest.sh <round-suffix> <property> <n> [other properties...]
# Copies a sub-agent's delivery (/tmp/wt/<property>/out/<n>) to seeded/<property><suffix>-<n>/ and
# confirms it / runs the quick checks against it in its own scratch copy (tools/seeded.sh).
cd "$(dirname "$0")/.." || exit 2
SUF=$1; P=$2; N=$3; shift 3
D=seeded/${P}${SUF}-${N}
mkdir -p "$D"
cp /tmp/wt/$P/out/$N/* "$D"/ 2>/dev/null
export MUT_SCRATCH=/tmp/txtpp-mut-${P}${SUF}-${N}
tools/seeded.sh "$D" - "$P" "$@" > "$D/ingest.log" 2>&1
rm -rf "$MUT_SCRATCH"
cat "$D/result.txt"
