#!/usr/bin/env python3
"""Write /verif/seeded/<id>/meta.json from the result.txt that tools/seeded.sh produced and the
table below (what each change breaks and what it needs in order to manifest)."""
import json, os, re, sys

HERE = os.path.dirname(os.path.dirname(os.path.abspath(__file__)))

T = {
 "C01-1": ("C01", "temp file rewritten in place without truncation", "a temp target whose new content is shorter than what is on disk: the same target named twice in one source, or build / shorten the temp body / build again"),
 "C01-2": ("C01", "unused-tag check moved ahead of the first-pass dependency return", "a tag whose lifetime spans the first include of a .txtpp-backed file"),
 "C02-1": ("C02", "a file leaves the de-duplication set when its second pass is scheduled", "A -> X -> Z and A -> Y; A's first-pass result reaches the coordinator after X finished and before Y finished; >= 2 threads"),
 "C02-2": ("C02", "absolute paths are no longer canonicalised", "an include argument containing `..` plus the same file reached under its canonical path, and a particular interleaving"),
 "C03-1": ("C03", "absolute paths are no longer canonicalised", "the same file named twice with and without `..`, or scanned and included through `../`"),
 "C03-2": ("C03", "`added` flag of add_dependency reflects only the last listed dependency", "a file with >= 2 dependencies whose last listed one has finished and an earlier one has not when its first-pass result arrives"),
 "C04-1": ("C04", "final flush of the output writer replaced by Ok(())", "Build mode and a write fault (ENOSPC/EFBIG) that lands in the last buffered chunk"),
 "C04-2": ("C04", "verify no longer checks that the stored output was consumed completely", "build, append to an output that no other verified file includes, verify"),
 "C05-1": ("C05", "a finished file with waiters is not recorded as finished", "a shared dependency with two dependers and the order: first depender reports, shared file finishes, second depender reports"),
 "C05-2": ("C05", "self-include reported as an error in the first pass (fail fast)", "a self-including file plus another required file that still waits for its second pass when the error is received"),
 "C06-1": ("C06", "leftover check of verify uses BufReader::buffer()", "fresh output empty or an exact multiple of 8192 bytes and the stored output longer"),
 "C06-2": ("C06", "re-run of a file whose dependencies all finished first loses is_first_pass=false", "all dependencies of a file reported finished before its own first-pass result is received"),
 "C07-1": ("C07", "clean drops the line that ends a directive", "two directives back to back (a temp directive directly after another directive)"),
 "C07-2": ("C07", "scan_dir stats every entry with `?`", "a clean pass deletes a file of a directory between readdir and stat of that entry in a concurrent scan"),
 "C08-1": ("C08", "skip-if-same compares lines, ignoring line endings and final newline", "a leftover temp/--needed output that differs only in line endings or final newline (e.g. torn one byte before the end), or is not UTF-8"),
 "C08-2": ("C08", "get_txtpp_file no longer finds NAME.txtpp.EXT sources", "an include of the output of a source named in the second shape, with something lying at the generated path"),
 "C09-1": ("C09", "--needed stages the write in <stem>.tmp and renames", "a sibling <stem>.tmp (for instance the source's own temp target) or two outputs sharing a stem"),
 "C09-2": ("C09", "--needed compares the existing output as text", "an existing output that is not valid UTF-8"),
 "C10-1": ("C10", "is_txtpp_file accepts txtpp at any extension depth", "a file such as page.txtpp.html.orig or notes.txtpp.tar.gz in a scanned directory"),
 "C10-2": ("C10", "a directive error in verify deletes the output", "build succeeds, then a directive starts failing (include removed, command fails), then verify"),
 "C11-1": ("C11", "absolute paths are no longer canonicalised", "one source reached through two spellings that differ by `..`"),
 "C11-2": ("C11", "dependency collection runs in clean mode", "clean of a named file whose include/after dependency is outside the named set"),
 "C17-1": ("C17", "a relative configured shell path is resolved against the source's directory", "--shell ./tools/mysh -c and a source whose directory is not the process cwd"),
 "C17-2": ("C17", "empty argument lines are dropped before joining the command", "a multi-line run directive with a prefix-only continuation line where spacing matters"),
 "C18-1": ("C18", "add_line compares char count but slices by byte length", "a multi-line-capable directive with a non-ASCII prefix followed by a short space-indented line"),
 "C18-2": ("C18", "bounded result channel (threads x 8)", "an error received while more results are outstanding than the channel holds: Drop joins the pool before draining"),
 "C02b-1": ("C02", "`added` flag of add_dependency reflects only the last listed dependency", "D with >= 2 dependencies, last listed finished and an earlier one in flight when D's first pass is received; a file E including D keeps the premature D"),
 "C02b-2": ("C02", "`after X` is not a dependency once a file X exists", "a stale or half-written X on disk and a command after `after X`"),
 "C03b-1": ("C03", "bounded result channel (threads x 2)", "a failure received while more than 2 x threads results are outstanding"),
 "C03b-2": ("C03", "--needed treats a missing output as empty", "--needed, a source with empty output, output absent"),
 "C04b-1": ("C04", "--needed writes the output with a single write() and ignores the count", "--needed and a write that is cut short (RLIMIT_FSIZE below the output size)"),
 "C04b-2": ("C04", "a command killed by a signal counts as success", "a run command whose shell dies from a signal"),
 "C05b-1": ("C05", "second waiter on a dependency is not counted; notify_finish skips unknown dependers", "a -> {b, c}, b -> {c, a}; b's first-pass result handled while c is unfinished"),
 "C05b-2": ("C05", "re-run of a file whose dependencies all finished first goes through the first-pass de-duplication", "all dependencies of a file finished before its first-pass result is handled"),
 "C06b-1": ("C06", "an `after` that follows the first dependency is dropped", "`include b ... after c` with c not among the inputs and a change to c's output that does not alter the depender's output"),
 "C06b-2": ("C06", "verify does not refresh temp files that exist", "build, edit the body of a temp directive consumed by a command, verify; or a temp file changed by hand"),
 "C07b-1": ("C07", "clean schedules inputs without the duplicate check", "clean with overlapping inputs and two workers between exists() and remove_file() of the same output"),
 "C07b-2": ("C07", "clean skips temp files when the output is absent", "build, output removed, clean"),
 "C08b-1": ("C08", "skip-if-same decodes the leftover as UTF-8", "a temp file (any mode) or output (--needed) left with invalid UTF-8"),
 "C08b-2": ("C08", "temp files overwritten in place without truncation", "an existing temp file longer than the fresh content"),
 "C09b-1": ("C09", "--needed output buffer is a per-thread buffer only emptied in done()", "--needed and a file with text before its first .txtpp include; the next task on that worker inherits the text"),
 "C09b-2": ("C09", "temp file updated in place, never truncated", "temp content that shrinks between runs"),
 "C10b-1": ("C10", "verify processes dependencies in --needed mode", "verify with a stale or missing dependency output reached as a dependency before it arrives as an input"),
 "C10b-2": ("C10", "--needed stages its write through path.with_extension(tmp)", "--needed, an output that needs writing and an unrelated sibling <stem>.tmp"),
 "C11b-1": ("C11", "a finished source leaves the de-duplication set", "a source reachable two ways whose Ok result is handled before the scan result that lists it"),
 "C11b-2": ("C11", "`.txtpp` and `.txtpp.<ext>` are treated as sources", "a file named exactly .txtpp or .txtpp.md in a scanned directory or named as input"),
 "C01b-1": ("C01", "un-indented directive output skips line-ending normalisation in LF sources", "LF source, un-indented include/run whose result contains CRLF (CRLF file, command printing CRLF, or the output of a CRLF dependency)"),
 "C01b-2": ("C01", "`after` returns an empty output instead of none", "tag, then after, then the directive whose output should be captured"),
 "C17b-1": ("C17", "the TXTPP_FILE guard only fires when the value names an existing file", "txtpp started with TXTPP_FILE set to something that is not an existing file relative to its cwd (a nested run in a subdirectory)"),
 "C17b-2": ("C17", "the resolved shell is memoised per process", "two runs in one process with different shell_cmd values"),
 "C18b-1": ("C18", "scan results bump the total once per entry but already-known files are not scheduled", "a file known before the scan of its directory is processed (HasDeps before ScanDir, or file and directory both named)"),
 "C18b-2": ("C18", "run waits for the child before reading its pipes", "a command that prints more than 64 KiB"),
 "C02c-1": ("C02", "make_abs skips canonicalize for absolute paths without `.`/`..`", "a symlinked directory, X named once by its real path and once through the link, and a depender reading X while the alias task has it truncated"),
 "C02c-2": ("C02", "dependencies de-duplicated by spelling in the collector, counted unguarded in add_dependency", "one file naming the same dependency with two different spellings"),
 "C03c-1": ("C03", "bounded result channel of 256 slots", "a failing run with more than 256 task results outstanding (several hundred files)"),
 "C03c-2": ("C03", "std::path::absolute instead of canonicalize", "the same file reachable under two spellings (`..` or symlink) in one build"),
 "C04c-1": ("C04", "write() instead of write_all() for the output", "Build, trailing newline off, a final directive result of >= 8 KiB and a size limit falling inside that chunk"),
 "C04c-2": ("C04", "a command killed by a signal counts as success", "the shell of a run command dies from a signal"),
 "C06c-1": ("C06", "verify compares the stored output as lossily decoded text", "a fresh output containing U+FFFD and a stored output where that character's lead byte is an invalid byte"),
 "C06c-2": ("C06", "-N placed before a subcommand overrides its mode", "the real binary invoked as `txtpp -N verify`"),
 "C08c-1": ("C08", "skip-if-same compares length and the first 8 KiB only", "a generated temp file or --needed output of more than 8 KiB and a leftover of the same length differing beyond offset 8192"),
 "C08c-2": ("C08", "temp file rewritten in place without truncation", "a leftover temp file longer than the fresh content"),
 "C09c-1": ("C09", "block-wise comparison drops the last partial 1 MiB block", "an output of more than 1 MiB already present with the same length, differing only in its tail"),
 "C09c-2": ("C09", "a missing output is treated as empty in --needed mode", "--needed, empty fresh output, output file absent"),
 "C10c-1": ("C10", "--needed stages the write in <stem>.tmp", "--needed, an output that has to change and a bystander named <output stem>.tmp"),
 "C10c-2": ("C10", "-N placed before a subcommand overrides its mode", "the real binary invoked as `txtpp -N verify` or `txtpp -N clean`"),
 "C18c-1": ("C18", "bounded result channel of 256 slots", "an error while more than 256 results are outstanding"),
 "C18c-2": ("C18", "add_line compares char count but slices by byte length", "a multi-line-capable directive with a non-ASCII prefix followed by a short space-indented line"),
 "C01c-1": ("C01", "line-ending detection reads at most 8 KiB of the first line", "a CRLF source whose first line is longer than 8190 bytes"),
 "C01c-2": ("C01", "a command killed by a signal counts as success", "the shell of a run command dies from a signal"),
 "C05c-1": ("C05", "self-include reported as an error in the first pass (fail fast)", "a cycle of length one plus an acyclic file still waiting for its final pass when the error is received"),
 "C05c-2": ("C05", "a debug log statement drains the dependency graph before the cycle check", "a logger enabled at debug level (RUST_LOG=debug for the binary, any logger for the library)"),
 "C07c-1": ("C07", "in clean mode only temp directives are kept open, so continuation lines are parsed on their own", "a multi-line write/run/empty block containing a line that looks like a temp directive naming an existing file"),
 "C07c-2": ("C07", "-N placed before a subcommand overrides its mode", "the real binary invoked as `txtpp -N clean`"),
 "C11c-1": ("C11", "directory scan tests the entry name before its type", "recursion on and a directory whose name looks like a txtpp source (partials.txtpp/)"),
 "C11c-2": ("C11", "dependency paths are not canonicalised", "a dependency written with `..` and the same source also reached by scan, input or another dependent"),
 "C17c-1": ("C17", "base directory stripped from paths as a string prefix", "a source outside the base in a sibling directory whose name extends the base's name, and a command reading TXTPP_FILE"),
 "C17c-2": ("C17", "shell option tokenised on single spaces", "an overridden shell string with two blanks, a tab or a trailing blank"),
 # round d: the agent saw the list of earlier ideas for its property and was asked for something else
 "C01d-1": ("C01", "std::path::absolute instead of canonicalize in make_abs", "an include spelled with `..` plus the same file under its canonical path, and the interleaving: first build of b done, depender released, second build of b truncates b, depender includes it"),
 "C01d-2": ("C01", "inject_tags replaces in place, searching the partly substituted line", "two tags stored at once, both used on one line, the text stored under the left one contains the right one's name"),
 "C02d-1": ("C02", "build mode creates the output lazily; an empty fresh output is created only if nothing exists", "a dependency whose fresh output is empty while an old non-empty output lies on disk"),
 "C02d-2": ("C02", "done() calls sync_all on the inner file instead of flush", "a write fault (ENOSPC / EFBIG / EIO) that lands in the final buffered chunk: BufWriter's Drop swallows it"),
 "C03d-1": ("C03", "directory scan classifies entries with DirEntry::file_type (symlinks are skipped)", "a .txtpp source or (with -r) a sub-directory present as a symbolic link whose target is reached no other way"),
 "C03d-2": ("C03", "Shell::run reads stdout to the end, then stderr, then waits", "a command that writes more than a pipe buffer (64 KiB) to stderr while stdout is open"),
 "C04d-1": ("C04", "Progress::begin_task counts after printing (with ?), is_done uses >=", "verbose output, a stderr on which writes fail, and a failing file whose result has not arrived at the next poll"),
 "C04d-2": ("C04", "directory scan classifies entries with DirEntry::file_type (symlinks are skipped)", "a failing source present in the scanned directory only as a symbolic link"),
 "C05d-1": ("C05", "process-wide cache of get_txtpp_file answers", "two runs in one process on one directory with the set of .txtpp files changing in between (a cached miss hides the edge that closes a cycle)"),
 "C05d-2": ("C05", "after the first dependency the rest of the file is scanned line by line for dependencies", "a multi-line write/run/temp block below a genuine dependency that quotes `TXTPP#include X` with X the file itself or one of its dependers"),
 "C06d-1": ("C06", "verify compares through a 4 KiB stack buffer and advances by the bytes asked for", "a stored output of more than 8 KiB with a compared piece straddling a multiple of 8192"),
 "C06d-2": ("C06", "verify takes the line ending from the stored output instead of the source", "a source edit that flips the first line's ending after the build, or a \\r inserted before the only \\n of a one-line output"),
 "C07d-1": ("C07", "clean refuses to remove temp files outside the base directory", "base directory below the project root and a temp target reached through ../"),
 "C07d-2": ("C07", "clean propagates DeleteFile errors of temp directives", "a temp directive naming an existing directory, or two sources sharing a temp target cleaned by two workers at once"),
 "C08d-1": ("C08", "one-line sources inherit the line ending of the existing output", "a source that is one unterminated line and a leftover output whose first line ends in CRLF"),
 "C08d-2": ("C08", "whole-buffer writes staged in <name>.tmp (create_new) and renamed", "the process killed between creating the staging file and the rename: every later build fails with EEXIST"),
 "C09d-1": ("C09", "--needed skips the comparison when the output is older than its source", "a source saved again without a change (newer mtime than its output), then a needed-build"),
 "C09d-2": ("C09", "nothing is done for a temp file whose fresh content is empty", "a temp directive without content lines and a non-empty stale file at its target"),
 "C10d-1": ("C10", "temp targets get missing parent directories created; clean prunes the directory", "a temp target in a directory other than the source's that does not exist (build) or becomes empty (clean)"),
 "C10d-2": ("C10", "the temp guard only looks at the last extension", "a temp directive naming an existing source spelled NAME.txtpp.EXT"),
 "C11d-1": ("C11", "with -r, input directories inside other input directories are pruned by string prefix", "recursion on and two named directories one of whose canonical paths is a string prefix of the other without being its ancestor (lib, lib2)"),
 "C11d-2": ("C11", "remove_txtpp rebuilds NAME.txtpp.EXT outputs through to_string_lossy", "a source of the middle shape whose file name is not valid UTF-8"),
 "C17d-1": ("C17", "run output decoded chunk by chunk (8 KiB) with from_utf8_lossy", "a command printing more than 8 KiB of multi-byte text with a character straddling a read boundary"),
 "C17d-2": ("C17", "AbsPath::parent skips re-canonicalising and becomes its own base", "an includer below the base directory and an included source reached as a dependency before any scan finds it"),
 "C18d-1": ("C18", "verify compares against BufReader::fill_buf in a loop that never advances at EOF", "verify of an output that gets shorter after it was opened, e.g. a temp directive aimed at the source's own output"),
 "C18d-2": ("C18", "the line loop skips output-less lines by calling itself", "some thousand consecutive directive / continuation lines (stack overflow aborts the process)"),
 # round e: as round d, and at least one of the two changes had to depend on timing, a fault or crash at a particular point, or a multi-step history
 "C01e-1": ("C01", "done() calls sync_all on the inner file instead of flush", "a write error on the final flush of an output (the only write of an output below 8 KiB)"),
 "C01e-2": ("C01", "a source reads each included file once (cache keyed by the path as written)", "one source includes the same file twice and rewrites it in between through a temp directive that spells the path differently, or through a command"),
 "C02e-1": ("C02", "process-wide cache of the lookup 'does this include target have a .txtpp source'", "two runs in one process; between them an included plain file gains a .txtpp source"),
 "C02e-2": ("C02", "`after` accepts several files: the argument is split on blanks unless a file of that name exists", "an `after` target with a blank in its name whose output does not exist yet, and the depender's first pass before the target's"),
 "C03e-1": ("C03", "process-wide memo of canonicalised absolute paths", "two runs in one process and a symbolic link on the way to a requested path retargeted in between"),
 "C03e-2": ("C03", "the directive name ends at any whitespace (slice at i + 1)", "a multi-byte blank (U+3000, U+00A0) right after `TXTPP#name`: the worker panics, the coordinator waits for ever"),
 "C04e-1": ("C04", "a failed run no longer joins the pool; workers ignore a closed channel", "run 1 fails while a sibling's worker is still inside its pass; the sources are repaired; run 2 in the same process succeeds and the straggler then writes its old text over the output"),
 "C04e-2": ("C04", "verify compares the stored output as lossily decoded text", "an output containing U+FFFD and a tamper that turns EF BF BD into an ill-formed sequence of the same length"),
 "C05e-1": ("C05", "verify starts every file in execute mode (no dependency collection)", "build an acyclic project, close a cycle with an edit that leaves the outputs up to date (`after`), verify"),
 "C05e-2": ("C05", "first-pass de-duplication keyed by the output path", "both spellings foo.txt.txtpp and foo.txtpp.txt exist and the second is scheduled first (two sources for one output: outside the input domain 4.3 item 12)"),
 "C06e-1": ("C06", "verify does not register dependencies: the depender is re-scheduled at once", "a depender that includes a temp file its dependency writes; the temp text is edited after the build; the depender's pass reads it before the dependency refreshed it"),
 "C06e-2": ("C06", "verify takes the stored output's length from symlink_metadata", "an output path that is a symbolic link to a regular file"),
 "C07e-1": ("C07", "existing plain files given as inputs are skipped", "inputs name sources by their output path and the outputs exist: build, then clean with the same inputs"),
 "C07e-2": ("C07", "backslashes in path arguments become separators, except in clean mode", "a temp target with a backslash in its name"),
 "C08e-1": ("C08", "add_dependency: `break` instead of `continue` on a repeated edge", "the same dependency listed twice in front of another one that is still unfinished when the first finishes, and a leftover at that one's output"),
 "C08e-2": ("C08", "write_temp_file returns early when the content is empty", "a temp directive without content lines and a non-empty leftover at its target"),
 "C09e-1": ("C09", "process-wide memo (digest, length) of temp files already in sync", "two runs in one process and a temp file changed in between without changing its length"),
 "C09e-2": ("C09", "the --needed output goes through a BufWriter that is never flushed", "--needed, a stale output below 8 KiB and a write error on its data"),
 "C10e-1": ("C10", "try_resolve falls back to the base directory for paths that do not exist next to the source", "a clean run while sub/N is absent and another file base/N exists (N a temp target of a source in sub/)"),
 "C10e-2": ("C10", "clean resolves (canonicalises) the output path before removing it", "an output path that is a symbolic link: clean deletes the file behind it"),
 "C11e-1": ("C11", "build writes each output to <source>.tmp beside the source and renames it", "a directory scanned while one of its sources is mid-pass (the partial file has a source-shaped name), or a kill before the rename"),
 "C11e-2": ("C11", "function-local static memo of dependency-source lookups", "two runs in one process; between them an included plain file gains (or loses) a .txtpp source"),
 "C17e-1": ("C17", "commands run by the first pass are recorded and replayed in the final pass", "a command above the first dependency line whose output depends on that dependency's product"),
 "C17e-2": ("C17", "TXTPP_FILE is set from the path's exact bytes", "a source whose file name is not valid UTF-8 and a command that starts txtpp: the guard read the variable with env::var and skipped it (neutralised by the repair of D7)"),
 "C18e-1": ("C18", "verify reads the stored output lazily in one go and slices it", "verify, two threads, a temp directive of another source rewriting the output (shorter) between the size sample and the first comparison"),
 "C18e-2": ("C18", "inject_tags without the overlap guard", "two live tags, a suffix of one being a prefix of the other (NAME_, _ID), used overlapping on one line"),
}

def main():
    sd = os.path.join(HERE, "seeded")
    rows = []
    for name in sorted(os.listdir(sd)):
        d = os.path.join(sd, name)
        if not os.path.isdir(d) or name not in T:
            continue
        prop, what, needs = T[name]
        res = open(os.path.join(d, "result.txt")).read() if os.path.exists(os.path.join(d, "result.txt")) else ""
        checks = {}
        for m in re.finditer(r"^(C\d\d) exit=(\d)[ \t]*(\S*)$", res, re.M):
            checks[m.group(1)] = {"exit": int(m.group(2)), "classes": [c for c in m.group(3).split(",") if c]}
        meta = {
            "id": name,
            "property": prop,
            "change": what,
            "needs_to_manifest": needs,
            "patch": "patch.rebased.diff" if os.path.exists(os.path.join(d, "patch.rebased.diff")) else "patch.diff",
            "demonstration": "demo.rs" if os.path.exists(os.path.join(d, "demo.rs")) else "demo.sh",
            "confirmed": {
                "demo_without_change": re.search(r"demo without change: (\w+)", res).group(1) if "demo without change" in res else None,
                "suite_with_change": re.search(r"suite with change: (\w+)", res).group(1) if "suite with change" in res else None,
                "demo_with_change": re.search(r"demo with change: (\w+)", res).group(1) if "demo with change" in res else None,
            },
            "what_was_run": "tools/seeded.sh seeded/%s - %s (scratch copy of /repo at HEAD with the patch applied; full baseline suite; demonstration with and without the change; quick checks of the listed properties at their full quick budget)" % (name, " ".join(sorted(checks))),
            "checks": checks,
            "caught_by_target_check": checks.get(prop, {}).get("exit") == 1,
        }
        json.dump(meta, open(os.path.join(d, "meta.json"), "w"), indent=1)
        rows.append((name, prop, what, meta["caught_by_target_check"], checks))
    for r in rows:
        others = ", ".join("%s:%s" % (k, "/".join(v["classes"]) or "-") for k, v in sorted(r[4].items()))
        print("| %s | %s | %s | %s |" % (r[0], r[2], "yes" if r[3] else "NO", others))

if __name__ == "__main__":
    main()
