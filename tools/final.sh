#!/bin/sh
# tools/final.sh [tier] : run every registered check once in /verif against /repo (default seed),
# validate MANIFEST.json and every evidence file against the schemas, print a summary.
cd "$(dirname "$0")/.." || exit 2
TIER=${1:-quick}
PROPS=$(python3 -c "import json; print(' '.join(c['property_id'] for c in json.load(open('MANIFEST.json'))['checks']))")
rc=0
for p in $PROPS; do
    out=$(./check "$p" "$TIER" 2>&1); code=$?
    printf '%s\n' "$out" | grep -E '^(KNOWN-FINDING|VIOLATION|HARNESS-ERROR|WARNING)' | cut -c1-300
    echo "$p exit=$code $(printf '%s\n' "$out" | grep -E '^property=' | tail -1)"
    [ $code -eq 0 ] || rc=1
done
PY=python3-vt; command -v $PY >/dev/null 2>&1 || PY=python3
$PY - <<'PYEOF' || rc=1
import json, sys
try:
    import jsonschema
except Exception:
    print("jsonschema not available: schema validation skipped"); sys.exit(0)
m = json.load(open('MANIFEST.json'))
jsonschema.validate(m, json.load(open('/root/.vp/MANIFEST.schema.json')))
es = json.load(open('/root/.vp/EVIDENCE.schema.json'))
for c in m['checks']:
    e = json.load(open(c['evidence_file']))
    jsonschema.validate(e, es)
    assert e['property_id'] == c['property_id'] and e['level'] == c['level_claimed']['category'], c['property_id']
print("MANIFEST.json and", len(m['checks']), "evidence files validate")
PYEOF
exit $rc
