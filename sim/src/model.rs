//! Data model of a simulated case: everything a replay file contains.
use serde::{Deserialize, Serialize};

/// Bytes that serialise as a JSON string when they are valid UTF-8, as {"hex": ".."} otherwise.
#[derive(Clone, Debug, PartialEq, Eq, Hash, Default, PartialOrd, Ord)]
pub struct B(pub Vec<u8>);

impl B {
    pub fn s(s: &str) -> B {
        B(s.as_bytes().to_vec())
    }
    pub fn lossy(&self) -> String {
        String::from_utf8_lossy(&self.0).to_string()
    }
}

#[derive(Serialize, Deserialize)]
#[serde(untagged)]
enum BRepr {
    S(String),
    H { hex: String },
}

impl Serialize for B {
    fn serialize<S: serde::Serializer>(&self, s: S) -> Result<S::Ok, S::Error> {
        match std::str::from_utf8(&self.0) {
            Ok(t) => BRepr::S(t.to_string()).serialize(s),
            Err(_) => BRepr::H {
                hex: self.0.iter().map(|b| format!("{b:02x}")).collect(),
            }
            .serialize(s),
        }
    }
}

impl<'de> Deserialize<'de> for B {
    fn deserialize<D: serde::Deserializer<'de>>(d: D) -> Result<B, D::Error> {
        Ok(match BRepr::deserialize(d)? {
            BRepr::S(s) => B(s.into_bytes()),
            BRepr::H { hex } => B((0..hex.len() / 2)
                .map(|i| u8::from_str_radix(&hex[2 * i..2 * i + 2], 16).unwrap_or(0))
                .collect()),
        })
    }
}

/// One planted file-system object, path relative to the tree root.
/// File data may contain the token `@ROOT@`, replaced by the absolute tree root when planted.
#[derive(Clone, Debug, Serialize, Deserialize, PartialEq)]
#[serde(tag = "t")]
pub enum Entry {
    Dir { path: String },
    File { path: String, data: B },
    Symlink { path: String, target: String },
}

impl Entry {
    pub fn path(&self) -> &str {
        match self {
            Entry::Dir { path } | Entry::File { path, .. } | Entry::Symlink { path, .. } => path,
        }
    }
}

#[derive(Clone, Debug, Serialize, Deserialize, Default, PartialEq)]
pub struct Project {
    pub entries: Vec<Entry>,
}

impl Project {
    pub fn file(&self, path: &str) -> Option<&B> {
        self.entries.iter().rev().find_map(|e| match e {
            Entry::File { path: p, data } if p == path => Some(data),
            _ => None,
        })
    }
    pub fn set_file(&mut self, path: &str, data: B) {
        for e in self.entries.iter_mut() {
            if let Entry::File { path: p, data: d } = e {
                if p == path {
                    *d = data;
                    return;
                }
            }
        }
        self.entries.push(Entry::File {
            path: path.to_string(),
            data,
        });
    }
    pub fn remove(&mut self, path: &str) {
        self.entries.retain(|e| e.path() != path);
    }
    pub fn add_dir(&mut self, path: &str) {
        if path.is_empty() || path == "." {
            return;
        }
        if !self.entries.iter().any(|e| e.path() == path) {
            if let Some((parent, _)) = path.rsplit_once('/') {
                self.add_dir(parent);
            }
            self.entries.push(Entry::Dir {
                path: path.to_string(),
            });
        }
    }
    pub fn add_file(&mut self, path: &str, data: B) {
        if let Some((parent, _)) = path.rsplit_once('/') {
            self.add_dir(parent);
        }
        self.set_file(path, data);
    }
    /// Resolve a tree-relative path the way the operating system does: components left to right,
    /// `..` pops the already resolved (symlink-free) prefix, a component that is a planted symlink
    /// is replaced by its (relative) target. None if the path leaves the tree.
    pub fn resolve(&self, path: &str) -> Option<String> {
        let links: std::collections::BTreeMap<&str, &str> = self
            .entries
            .iter()
            .filter_map(|e| match e {
                Entry::Symlink { path, target } => Some((path.as_str(), target.as_str())),
                _ => None,
            })
            .collect();
        let mut todo: Vec<String> = path.split('/').rev().map(|s| s.to_string()).collect();
        let mut done: Vec<String> = vec![];
        let mut budget = 64;
        while let Some(c) = todo.pop() {
            match c.as_str() {
                "" | "." => {}
                ".." => {
                    done.pop()?;
                }
                _ => {
                    done.push(c);
                    let cur = done.join("/");
                    if let Some(t) = links.get(cur.as_str()) {
                        budget -= 1;
                        if budget == 0 || t.starts_with('/') {
                            return None;
                        }
                        done.pop();
                        for part in t.split('/').rev() {
                            todo.push(part.to_string());
                        }
                    }
                }
            }
        }
        Some(done.join("/"))
    }
    pub fn files(&self) -> impl Iterator<Item = (&str, &B)> {
        self.entries.iter().filter_map(|e| match e {
            Entry::File { path, data } => Some((path.as_str(), data)),
            _ => None,
        })
    }
}

#[derive(Clone, Copy, Debug, Serialize, Deserialize, PartialEq, Eq, Hash, PartialOrd, Ord)]
pub enum ModeS {
    Build,
    Needed,
    Verify,
    Clean,
}

impl ModeS {
    pub fn to_txtpp(self) -> txtpp::Mode {
        match self {
            ModeS::Build => txtpp::Mode::Build,
            ModeS::Needed => txtpp::Mode::InMemoryBuild,
            ModeS::Verify => txtpp::Mode::Verify,
            ModeS::Clean => txtpp::Mode::Clean,
        }
    }
    pub fn name(self) -> &'static str {
        match self {
            ModeS::Build => "build",
            ModeS::Needed => "needed",
            ModeS::Verify => "verify",
            ModeS::Clean => "clean",
        }
    }
}

/// Configuration of one txtpp invocation. Paths are relative to the tree root.
#[derive(Clone, Debug, Serialize, Deserialize, PartialEq)]
pub struct RunCfg {
    pub mode: ModeS,
    /// base directory, relative to the tree root ("" = the root itself)
    pub base: String,
    /// how base_dir is given to txtpp: absolute, or relative to the process cwd
    #[serde(default)]
    pub base_relative: bool,
    /// process working directory, relative to the tree root; None = same as base
    #[serde(default)]
    pub cwd: Option<String>,
    pub inputs: Vec<String>,
    pub recursive: bool,
    pub k: usize,
    pub trailing_newline: bool,
    #[serde(default)]
    pub shell: String,
    /// fault F8: RLIMIT_FSIZE (bytes) in force while this invocation runs
    #[serde(default)]
    pub fsize_limit: Option<u64>,
    /// console knob: 0 = Verbosity::Quiet; 1 = Normal, 2 = Verbose with stderr on /dev/null;
    /// 3 = Normal, 4 = Verbose with stderr on /dev/full (every progress write fails with ENOSPC)
    #[serde(default)]
    pub console: u8,
}

impl RunCfg {
    pub fn simple(mode: ModeS, base: &str, inputs: Vec<String>, k: usize) -> RunCfg {
        RunCfg {
            mode,
            base: base.to_string(),
            base_relative: false,
            cwd: None,
            inputs,
            recursive: true,
            k,
            trailing_newline: true,
            shell: String::new(),
            fsize_limit: None,
            console: 0,
        }
    }
}

#[derive(Clone, Copy, Debug, Serialize, Deserialize, PartialEq, Eq, Hash, PartialOrd, Ord)]
pub enum Policy {
    Uniform,
    Priority,
    CoordStarved,
    CoordEager,
    Lifo,
    Fifo,
}

pub const POLICIES: [Policy; 6] = [
    Policy::Uniform,
    Policy::Priority,
    Policy::CoordStarved,
    Policy::CoordEager,
    Policy::Lifo,
    Policy::Fifo,
];

/// How the scheduler chooses among enabled actions.
#[derive(Clone, Debug, Serialize, Deserialize, PartialEq)]
pub struct Sched {
    pub seed: u64,
    pub policy: Policy,
    /// park tasks at io points inside a pass as well
    #[serde(default)]
    pub fine: bool,
    /// if present: follow this action list (names); see `strict`
    #[serde(default)]
    pub script: Option<Vec<String>>,
    /// with a script: an action that is not enabled is a replay divergence (harness error)
    #[serde(default)]
    pub strict: bool,
}

impl Sched {
    pub fn seeded(seed: u64, policy: Policy, fine: bool) -> Sched {
        Sched {
            seed,
            policy,
            fine,
            script: None,
            strict: false,
        }
    }
}

#[derive(Clone, Debug, Serialize, Deserialize, PartialEq)]
pub enum TamperKind {
    /// replace a U+FFFD character of the file by an invalid sequence of the same length
    /// (decodes lossily to the same text); falls back to Flip when there is none
    LossyTwin,
    Flip,
    Insert,
    Delete,
    Append,
    Truncate,
    Remove,
    /// the first line ending of the file becomes the other one (LF <-> CRLF)
    CrlfFirst,
}

/// One step of a history.
#[derive(Clone, Debug, Serialize, Deserialize, PartialEq)]
#[serde(tag = "op")]
pub enum Op {
    /// a simulated txtpp invocation
    Run {
        cfg: RunCfg,
        sched: Sched,
        #[serde(default)]
        label: String,
    },
    /// replace the bytes of a file (source edit, dirty pre-state)
    Write { path: String, data: B },
    /// remove a file if present
    Remove { path: String },
    /// change one point of a file; `at` is a position in per-mille of its length
    Tamper {
        path: String,
        kind: TamperKind,
        at: u32,
    },
    /// set every mtime in the tree to the sentinel
    Sentinel,
    /// set the mtime of one path to the sentinel plus `days` (may be negative)
    Touch {
        path: String,
        days: i64,
    },
    /// remove whatever is at the entry's path and plant the entry (environment fault)
    Plant { entry: Entry },
    /// remember the current tree content
    Checkpoint,
    /// restore the tree content remembered by the last Checkpoint (new inodes), then Sentinel
    Rollback,
    /// replace the tree by the crash image of the previous run taken at scheduler step `step`;
    /// files written by the action at that step are torn according to `torn` (seeded)
    CrashImage {
        step: usize,
        torn: u64,
        /// count `step` among the actions that changed the tree only (crash inside a write)
        #[serde(default)]
        writing: bool,
    },
}

#[derive(Clone, Debug, Serialize, Deserialize, PartialEq)]
pub struct Case {
    pub property: String,
    /// oracle variant within the property's engine
    #[serde(default)]
    pub variant: String,
    pub seed: u64,
    pub index: u64,
    pub project: Project,
    pub ops: Vec<Op>,
    /// free-form parameters of the engine (fault kind, positions, ...)
    #[serde(default)]
    pub params: std::collections::BTreeMap<String, String>,
}

#[derive(Clone, Debug, Serialize, Deserialize, PartialEq)]
pub struct Violation {
    pub property: String,
    /// stable class used for minimisation and known-finding matching
    pub class: String,
    pub message: String,
}

/// The replay file
#[derive(Clone, Debug, Serialize, Deserialize)]
pub struct Replay {
    pub violation: Violation,
    pub case: Case,
    /// event log of the failing execution (informational)
    #[serde(default)]
    pub trace: Vec<String>,
    #[serde(default)]
    pub minimised: bool,
}
