//! Per-worker scratch environment and the glue from RunCfg to a simulated txtpp invocation.
use crate::ctl::{simulate, SimOpts, SimOut};
use crate::model::{RunCfg, Sched};
use crate::spec::Analysis;
use crate::tree;
use std::collections::{BTreeMap, BTreeSet};
use std::path::{Path, PathBuf};

pub struct Env {
    pub scratch: PathBuf,
    /// tree root (project paths are relative to it); several directories deep inside scratch
    pub root: PathBuf,
    /// side-effect log directory of the simulated run
    pub vlog: PathBuf,
    /// side-effect log directory of reference executions
    pub vlog_ref: PathBuf,
    /// sibling tree for reference executions that must not disturb `root`
    pub ref_root: PathBuf,
}

impl Env {
    pub fn new(scratch: &Path) -> Env {
        let _ = std::fs::remove_dir_all(scratch);
        std::fs::create_dir_all(scratch).expect("scratch");
        let scratch = scratch.canonicalize().expect("canonical scratch");
        let e = Env {
            root: scratch.join("t/a/b/c/p"),
            vlog: scratch.join("vlog"),
            vlog_ref: scratch.join("vlogref"),
            ref_root: scratch.join("r/a/b/c/p"),
            scratch,
        };
        std::fs::create_dir_all(&e.root).unwrap();
        std::fs::create_dir_all(&e.ref_root).unwrap();
        tree::set_scratch_for_hash(&e.scratch);
        e.reset_vlog();
        e
    }

    pub fn reset_vlog(&self) {
        for d in [&self.vlog, &self.vlog_ref] {
            let _ = std::fs::remove_dir_all(d);
            std::fs::create_dir_all(d).unwrap();
        }
    }

    /// Remove everything below the scratch tree area (also directories above the project root).
    pub fn reset_tree(&self) {
        let _ = std::env::set_current_dir(&self.scratch);
        let _ = std::fs::remove_dir_all(self.scratch.join("t"));
        std::fs::create_dir_all(&self.root).unwrap();
    }

    pub fn clear_run_vlog(&self) {
        let _ = std::fs::remove_dir_all(&self.vlog);
        std::fs::create_dir_all(&self.vlog).unwrap();
    }

    pub fn cleanup(&self) {
        let _ = std::env::set_current_dir("/");
        let _ = std::fs::remove_dir_all(&self.scratch);
    }

    /// Build the txtpp Config for a run in `root` and set the process cwd accordingly.
    pub fn config_for(&self, root: &Path, c: &RunCfg) -> txtpp::Config {
        let base_abs = tree::abs(root, &c.base);
        let cwd_abs = match &c.cwd {
            Some(d) => tree::abs(root, d),
            None => base_abs.clone(),
        };
        let _ = std::env::set_current_dir(&cwd_abs);
        let base_dir = if c.base_relative {
            rel_from(&cwd_abs, &base_abs)
        } else {
            base_abs
        };
        txtpp::Config {
            base_dir,
            shell_cmd: c.shell.replace("@ROOT@", &root.display().to_string()),
            inputs: c
                .inputs
                .iter()
                .map(|i| i.replace("@ROOT@", &root.display().to_string()))
                .collect(),
            recursive: c.recursive,
            num_threads: c.k,
            mode: c.mode.to_txtpp(),
            verbosity: match c.console {
                0 => txtpp::Verbosity::Quiet,
                1 | 3 => txtpp::Verbosity::Normal,
                _ => txtpp::Verbosity::Verbose,
            },
            trailing_newline: c.trailing_newline,
        }
    }

    /// One simulated invocation in the main tree with VLOG pointing at the run log.
    pub fn run(&self, c: &RunCfg, sched: &Sched, snaps: bool) -> SimOut {
        std::env::set_var("VLOG", &self.vlog);
        std::env::remove_var("TXTPP_FILE");
        let cfg = self.config_for(&self.root, c);
        // every source gets at most a first and a final pass, every directory one scan
        let (mut n_src, mut n_dir) = (0usize, 1usize);
        fn count(d: &Path, n_src: &mut usize, n_dir: &mut usize) {
            if let Ok(rd) = std::fs::read_dir(d) {
                for e in rd.flatten() {
                    match e.file_type() {
                        Ok(t) if t.is_dir() => {
                            *n_dir += 1;
                            count(&e.path(), n_src, n_dir);
                        }
                        _ => *n_src += 1,
                    }
                }
            }
        }
        count(&self.root, &mut n_src, &mut n_dir);
        let opts = SimOpts {
            snap_root: if snaps { Some(&self.root) } else { None },
            max_tasks: 4 * n_src + 2 * n_dir + 8 * c.inputs.len() + 16,
            ..Default::default()
        };
        let limited = c.fsize_limit.map(set_fsize_limit);
        let console = redirect_stderr(c.console);
        let out = simulate(&self.root, cfg, sched, &opts);
        restore_stderr(console);
        if limited.is_some() {
            clear_fsize_limit();
        }
        let _ = std::env::set_current_dir(&self.scratch);
        out
    }

    /// Marker counts written by run commands of the simulated run.
    pub fn markers(&self) -> BTreeMap<String, usize> {
        read_markers(&self.vlog)
    }

    /// Probe records of the simulated run: probe id -> lines
    pub fn probes(&self) -> BTreeMap<String, Vec<String>> {
        read_probes(&self.vlog)
    }
}

pub fn read_markers(dir: &Path) -> BTreeMap<String, usize> {
    let mut m = BTreeMap::new();
    if let Ok(s) = std::fs::read_to_string(dir.join("m")) {
        for l in s.lines() {
            if let Some(id) = l.strip_prefix("m ") {
                *m.entry(id.to_string()).or_insert(0) += 1;
            }
        }
    }
    m
}

pub fn read_probes(dir: &Path) -> BTreeMap<String, Vec<String>> {
    let mut m = BTreeMap::new();
    if let Ok(rd) = std::fs::read_dir(dir) {
        for e in rd.flatten() {
            let n = e.file_name().to_string_lossy().to_string();
            if let Some(id) = n.strip_prefix("p.") {
                let s = std::fs::read_to_string(e.path()).unwrap_or_default();
                m.insert(id.to_string(), s.lines().map(|l| l.to_string()).collect());
            }
        }
    }
    m
}

fn rel_from(from: &Path, to: &Path) -> PathBuf {
    let f: Vec<_> = from.components().collect();
    let t: Vec<_> = to.components().collect();
    let mut i = 0;
    while i < f.len() && i < t.len() && f[i] == t[i] {
        i += 1;
    }
    let mut p = PathBuf::new();
    for _ in i..f.len() {
        p.push("..");
    }
    for c in &t[i..] {
        p.push(c);
    }
    if p.as_os_str().is_empty() {
        p.push(".");
    }
    p
}

// ------------------------------------------------------------------------------------------
// R-seq: one file at a time in dependency order with the real preprocessor

#[derive(Clone, Debug, Default)]
pub struct RSeq {
    /// per source index: verdict of its own pass (None = not processed)
    pub ok: BTreeMap<usize, bool>,
    pub err_text: BTreeMap<usize, String>,
    /// bytes of generated paths after the reference execution (absent = not present)
    pub files: BTreeMap<String, Vec<u8>>,
    pub markers: BTreeMap<String, usize>,
    pub probes: BTreeMap<String, Vec<String>>,
    /// a reference pass did not return within the time limit (its thread is abandoned)
    pub hung: Option<String>,
}

/// Set when a reference pass had to be abandoned: the worker process must be replaced.
pub static REF_HUNG: std::sync::atomic::AtomicBool = std::sync::atomic::AtomicBool::new(false);

impl RSeq {
    /// all processed files succeeded
    pub fn all_ok(&self, set: &BTreeSet<usize>) -> bool {
        set.iter().all(|i| self.ok.get(i) == Some(&true))
    }
}

/// Compute R-seq for `set` (sources, dependencies first) in the tree at `root`.
/// The tree must already contain the sources; generated files present are whatever the caller
/// left (callers plant a pristine tree first). Processing stops descending into dependers of a
/// failed file: a depender of a failed dependency is recorded as failed without being run.
pub fn rseq(
    env: &Env,
    root: &Path,
    a: &Analysis,
    set: &BTreeSet<usize>,
    base: &str,
    mode: txtpp::Mode,
    trailing_newline: bool,
    shell: &str,
) -> RSeq {
    let mut r = RSeq::default();
    let _ = std::fs::remove_dir_all(&env.vlog_ref);
    std::fs::create_dir_all(&env.vlog_ref).unwrap();
    std::env::set_var("VLOG", &env.vlog_ref);
    std::env::remove_var("TXTPP_FILE");
    let base_abs = tree::abs(root, base);
    let _ = std::env::set_current_dir(&base_abs);
    let bad = a.bad();
    for i in a.topo(set) {
        if bad.contains(&i) {
            continue;
        }
        let s = &a.sources[i];
        let dep_failed = s
            .deps
            .iter()
            .any(|d| r.ok.get(&d.target) != Some(&true));
        if dep_failed {
            r.ok.insert(i, false);
            r.err_text.insert(i, "dependency failed".into());
            continue;
        }
        // on its own thread with a real-time limit: a changed tree may block inside a pass
        let (tx, rx) = std::sync::mpsc::channel();
        let (sh, ba, fp, md) = (shell.to_string(), base_abs.clone(), root.join(tree::osp(&s.path)), mode.clone());
        let _ = std::thread::Builder::new().name("reference".into()).spawn(move || {
            let res = std::panic::catch_unwind(|| txtpp::verif::preprocess_one(&sh, &ba, &fp, md, trailing_newline));
            let _ = tx.send(res);
        });
        let mut got = None;
        for _ in 0..240 {
            match rx.recv_timeout(std::time::Duration::from_millis(250)) {
                Ok(r) => {
                    got = Some(r);
                    break;
                }
                Err(std::sync::mpsc::RecvTimeoutError::Timeout) => {}
                Err(std::sync::mpsc::RecvTimeoutError::Disconnected) => break,
            }
        }
        let res = match got {
            Some(r) => r,
            None => {
                r.hung = Some(s.path.clone());
                r.ok.insert(i, false);
                r.err_text.insert(i, "reference pass did not return within 60 s".into());
                REF_HUNG.store(true, std::sync::atomic::Ordering::SeqCst);
                break;
            }
        };
        match res {
            Ok(Ok(())) => {
                r.ok.insert(i, true);
            }
            Ok(Err(e)) => {
                r.ok.insert(i, false);
                r.err_text.insert(i, e);
            }
            Err(_) => {
                r.ok.insert(i, false);
                r.err_text.insert(i, "panic".into());
            }
        }
    }
    for g in a.gen_all() {
        // regular files only: a generated path may be a symlink to a device (fault F6)
        let p = root.join(tree::osp(&g));
        let regular = std::fs::symlink_metadata(&p)
            .map(|m| m.file_type().is_file())
            .unwrap_or(false);
        if regular {
            if let Ok(b) = std::fs::read(&p) {
                r.files.insert(g, b);
            }
        }
    }
    r.markers = read_markers(&env.vlog_ref);
    r.probes = read_probes(&env.vlog_ref);
    let _ = std::env::set_current_dir(&env.scratch);
    r
}


/// Fault F8: per-file size limit for this process (and the children it spawns). SIGXFSZ is
/// ignored so that the offending write fails with EFBIG instead of killing the process.
pub fn set_fsize_limit(bytes: u64) {
    unsafe {
        libc::signal(libc::SIGXFSZ, libc::SIG_IGN);
        let mut cur = libc::rlimit {
            rlim_cur: 0,
            rlim_max: 0,
        };
        libc::getrlimit(libc::RLIMIT_FSIZE, &mut cur);
        let lim = libc::rlimit {
            rlim_cur: bytes as libc::rlim_t,
            rlim_max: cur.rlim_max,
        };
        libc::setrlimit(libc::RLIMIT_FSIZE, &lim);
    }
}

pub fn clear_fsize_limit() {
    unsafe {
        let mut cur = libc::rlimit {
            rlim_cur: 0,
            rlim_max: 0,
        };
        libc::getrlimit(libc::RLIMIT_FSIZE, &mut cur);
        let lim = libc::rlimit {
            rlim_cur: cur.rlim_max,
            rlim_max: cur.rlim_max,
        };
        libc::setrlimit(libc::RLIMIT_FSIZE, &lim);
    }
}

/// Console knob: while a non-quiet run is simulated, fd 2 points at /dev/null or at /dev/full
/// (progress output then fails with ENOSPC on every write). Returns the saved descriptor.
pub fn redirect_stderr(console: u8) -> Option<i32> {
    if console == 0 {
        return None;
    }
    let target = if console >= 3 { "/dev/full\0" } else { "/dev/null\0" };
    unsafe {
        let saved = libc::dup(2);
        let fd = libc::open(target.as_ptr() as *const libc::c_char, libc::O_WRONLY);
        if fd >= 0 {
            libc::dup2(fd, 2);
            libc::close(fd);
        }
        Some(saved)
    }
}

pub fn restore_stderr(saved: Option<i32>) {
    if let Some(fd) = saved {
        if fd >= 0 {
            unsafe {
                libc::dup2(fd, 2);
                libc::close(fd);
            }
        }
    }
}
