//! One integer decides everything: splitmix64-seeded xoshiro256**.

#[derive(Clone, Debug)]
pub struct Rng {
    s: [u64; 4],
}

pub fn splitmix(x: &mut u64) -> u64 {
    *x = x.wrapping_add(0x9E37_79B9_7F4A_7C15);
    let mut z = *x;
    z = (z ^ (z >> 30)).wrapping_mul(0xBF58_476D_1CE4_E5B9);
    z = (z ^ (z >> 27)).wrapping_mul(0x94D0_49BB_1331_11EB);
    z ^ (z >> 31)
}

/// Mix several integers into one seed (order-sensitive).
pub fn mix(parts: &[u64]) -> u64 {
    let mut h: u64 = 0x243F_6A88_85A3_08D3;
    for p in parts {
        h ^= *p;
        let mut x = h;
        h = splitmix(&mut x);
    }
    h
}

pub fn hash_str(s: &str) -> u64 {
    fnv(s.as_bytes())
}

pub fn fnv(b: &[u8]) -> u64 {
    let mut h: u64 = 0xcbf2_9ce4_8422_2325;
    for x in b {
        h ^= *x as u64;
        h = h.wrapping_mul(0x0000_0100_0000_01b3);
    }
    h
}

impl Rng {
    pub fn new(seed: u64) -> Self {
        let mut x = seed;
        let s = [
            splitmix(&mut x),
            splitmix(&mut x),
            splitmix(&mut x),
            splitmix(&mut x),
        ];
        Rng { s }
    }
    /// Independent stream derived from this seed and a label.
    pub fn stream(seed: u64, label: &str) -> Self {
        Rng::new(mix(&[seed, hash_str(label)]))
    }
    pub fn next(&mut self) -> u64 {
        let r = self.s[1].wrapping_mul(5).rotate_left(7).wrapping_mul(9);
        let t = self.s[1] << 17;
        self.s[2] ^= self.s[0];
        self.s[3] ^= self.s[1];
        self.s[1] ^= self.s[2];
        self.s[0] ^= self.s[3];
        self.s[2] ^= t;
        self.s[3] = self.s[3].rotate_left(45);
        r
    }
    pub fn below(&mut self, n: usize) -> usize {
        if n == 0 {
            return 0;
        }
        (self.next() % n as u64) as usize
    }
    /// inclusive range
    pub fn range(&mut self, lo: usize, hi: usize) -> usize {
        lo + self.below(hi - lo + 1)
    }
    /// true with probability num/den
    pub fn chance(&mut self, num: usize, den: usize) -> bool {
        self.below(den) < num
    }
    pub fn pick<'a, T>(&mut self, v: &'a [T]) -> &'a T {
        &v[self.below(v.len())]
    }
    pub fn shuffle<T>(&mut self, v: &mut [T]) {
        for i in (1..v.len()).rev() {
            let j = self.below(i + 1);
            v.swap(i, j);
        }
    }
    pub fn weighted(&mut self, w: &[u64]) -> usize {
        let total: u64 = w.iter().sum();
        if total == 0 {
            return 0;
        }
        let mut x = self.next() % total;
        for (i, wi) in w.iter().enumerate() {
            if x < *wi {
                return i;
            }
            x -= *wi;
        }
        w.len() - 1
    }
}
