//! Seeded generators: projects with dependency graphs, input selections, run configurations.
use crate::model::*;
use crate::names;
use crate::rng::Rng;
use crate::spec::Analysis;
use crate::tree::{join_rel, parent_rel};
use std::collections::BTreeSet;

pub const KS: [usize; 6] = [1, 2, 3, 4, 8, 16];

/// Relative path from directory `from` to path `to` (both tree-relative).
pub fn rel_path(from: &str, to: &str) -> String {
    let f: Vec<&str> = from.split('/').filter(|s| !s.is_empty()).collect();
    let t: Vec<&str> = to.split('/').filter(|s| !s.is_empty()).collect();
    let mut i = 0;
    while i < f.len() && i + 1 < t.len() && f[i] == t[i] {
        i += 1;
    }
    let mut parts: Vec<String> = vec![];
    for _ in i..f.len() {
        parts.push("..".into());
    }
    for c in &t[i..] {
        parts.push((*c).to_string());
    }
    parts.join("/")
}

#[derive(Clone, Debug)]
pub struct GraphOpts {
    pub max_n: usize,
    pub cyclic: bool,
    /// probability (per mille) that a project gets cycles when `cyclic`
    pub markers: bool,
    pub probes: bool,
    pub temps: bool,
    pub big: bool,
    /// allow dotted stems (`f1.v2.txtpp.txt`)
    pub dotted: bool,
    /// allow absolute include arguments
    pub absolute: bool,
    pub decoys: bool,
    /// every run command also leaves an execution marker
    pub mark_all: bool,
    /// now and then add a text-only source whose output has a boundary size (0, 8192, ...)
    pub sized: bool,
    /// now and then add a few dozen tiny independent sources (more results than any queue holds)
    pub wide: bool,
    /// allow one source of more than 1 MiB (never together with per-step snapshots)
    pub mega: bool,
    /// plant `lnk -> sub` (a symlinked directory) and spell some paths through it
    pub symlinks: bool,
    /// commands above a dependency line may read the dependency's output (never where that
    /// path can be a link to /dev/full: the first pass would read it for ever)
    pub read_above: bool,
    /// an empty directory that a command of some source removes: a recursive scan may find it
    /// gone (the run then fails with a reported error; it must still return)
    pub scratch_dir: bool,
}

impl Default for GraphOpts {
    fn default() -> Self {
        GraphOpts {
            max_n: 7,
            cyclic: false,
            markers: true,
            probes: true,
            temps: true,
            big: true,
            dotted: true,
            absolute: true,
            decoys: true,
            mark_all: false,
            sized: true,
            wide: false,
            mega: false,
            symlinks: false,
            read_above: true,
            scratch_dir: false,
        }
    }
}

pub struct SrcB {
    /// directive left open by the last element (a following line could continue it)
    pub open: Option<crate::spec::Dir>,
    pub lines: Vec<String>,
    pub eol: &'static str,
    pub final_newline: bool,
    /// per-mille chance that a non-first line uses the other line ending
    pub mixed: bool,
}

impl SrcB {
    pub fn new(eol: &'static str, final_newline: bool, mixed: bool) -> SrcB {
        SrcB {
            open: None,
            lines: vec![],
            eol,
            final_newline,
            mixed,
        }
    }
    /// Append one element (ordinary line, or a directive with its continuation lines). If its
    /// first line would be read as a continuation of the previous directive, a guard line is
    /// put in between.
    pub fn group(&mut self, ls: Vec<String>) {
        if ls.is_empty() {
            return;
        }
        if let Some(d) = &self.open {
            if crate::spec::continuation(d, &ls[0]).is_some() {
                self.lines.push("~".into());
            }
        }
        self.open = match crate::spec::detect(&ls[0], 0) {
            Some(d) if crate::spec::is_multi(&d.name) => Some(d),
            _ => None,
        };
        self.lines.extend(ls);
    }
    pub fn push(&mut self, l: String) {
        self.group(vec![l]);
    }
    pub fn render(&self, rng: &mut Rng) -> String {
        let mut s = String::new();
        let n = self.lines.len();
        for (i, l) in self.lines.iter().enumerate() {
            s.push_str(l);
            if i + 1 == n && !self.final_newline {
                break;
            }
            if i > 0 && self.mixed && rng.chance(1, 6) {
                s.push_str(if self.eol == "\n" { "\r\n" } else { "\n" });
            } else {
                s.push_str(self.eol);
            }
        }
        s
    }
}

const DIRS: [&str; 5] = ["", "sub", "sub/deep", "lib", "sub/other"];
const TEXTS: [&str; 16] = [
    "hello",
    "",
    "  indented line",
    "TXTPP is not a directive",
    "x TXTPP #run nope",
    "trailing spaces  ",
    "// a comment",
    "\tTabbed",
    "ünïcödé ✓",
    "TXTPP#nope x",
    "-- end --",
    "a = b + c;",
    "replacement \u{fffd} character",
    // a directive name followed by a blank that is not a space: ordinary text
    "TXTPP#run\u{3000}x",
    "-TXTPP#include\u{a0}plain1.txt",
    "// TXTPP#tag\u{2003}T",
];
const PREFIXES: [&str; 6] = ["-", "// ", "# ", "--", "<!-- ", "//"];
const WSS: [&str; 5] = ["", "", "  ", "\t", "    "];

pub fn source_name(rng: &mut Rng, i: usize, dotted: bool) -> String {
    source_name_b(rng, i, dotted, false)
}

/// `blanks`: now and then a name with a blank in it (callers quote names in commands then)
pub fn source_name_b(rng: &mut Rng, i: usize, dotted: bool, blanks: bool) -> String {
    let stem = if dotted && rng.chance(1, 5) {
        format!("f{i}.v{}", rng.below(3))
    } else if blanks && rng.chance(1, 12) {
        // a blank or a comma in the name (commands quote the names they mention)
        if rng.chance(1, 2) {
            format!("f{i} b")
        } else {
            format!("f{i},c")
        }
    } else {
        format!("f{i}")
    };
    match rng.below(5) {
        0 | 1 => format!("{stem}.txt.txtpp"),
        2 | 3 => format!("{stem}.txtpp.txt"),
        _ => format!("{stem}.txtpp"),
    }
}

pub struct GenGraph {
    pub project: Project,
    pub n: usize,
}

/// Random digraph on n nodes: a DAG w.r.t. a hidden order, plus back edges / self loops if cyclic.
pub fn gen_edges(rng: &mut Rng, n: usize, cyclic: bool) -> BTreeSet<(usize, usize)> {
    let mut order: Vec<usize> = (0..n).collect();
    rng.shuffle(&mut order);
    let dens = [1usize, 2, 3, 5][rng.below(4)]; // out of 10
    let mut e = BTreeSet::new();
    for a in 0..n {
        for b in (a + 1)..n {
            if rng.chance(dens, 10) {
                e.insert((order[a], order[b]));
            }
        }
    }
    // make chains more likely than by chance alone
    if n >= 3 && rng.chance(1, 3) {
        for a in 0..n - 1 {
            if rng.chance(2, 3) {
                e.insert((order[a], order[a + 1]));
            }
        }
    }
    if cyclic {
        let k = 1 + rng.below(2);
        for _ in 0..k {
            match rng.below(3) {
                0 => {
                    let i = rng.below(n);
                    e.insert((i, i));
                }
                _ => {
                    if n >= 2 {
                        let a = rng.below(n);
                        let mut b = rng.below(n);
                        if a == b {
                            b = (b + 1) % n;
                        }
                        let (lo, hi) = if order.iter().position(|x| *x == a)
                            < order.iter().position(|x| *x == b)
                        {
                            (a, b)
                        } else {
                            (b, a)
                        };
                        // back edge hi -> lo plus (often) the forward edge to close the cycle
                        e.insert((hi, lo));
                        if rng.chance(2, 3) {
                            e.insert((lo, hi));
                        }
                    }
                }
            }
        }
    }
    e
}

fn marker_cmd(id: &str) -> String {
    format!("printf 'm {id}\\n' >> \"${{VLOG:?}}/m\"")
}

fn probe_cmd(x: &str, id: &str) -> String {
    format!("{{ cat '{x}' 2>/dev/null || printf '<absent>'; }} | cksum >> \"${{VLOG:?}}/p.{id}\"")
}

/// Build a project around the given edge set. Every source gets text, directives and its edges
/// rendered as include/after lines.
pub fn gen_graph_project(rng: &mut Rng, o: &GraphOpts, n: usize, edges: &BTreeSet<(usize, usize)>) -> Project {
    let mut p = Project::default();
    // plain files
    let plains: Vec<(String, &str)> = vec![
        ("plain1.txt".into(), "plain one\n"),
        ("sub/plain2.txt".into(), "no newline at end"),
        ("lib/plain3.txt".into(), "l1\r\nl2\r\n"),
        ("plain4.txt".into(), ""),
    ];
    for d in DIRS {
        p.add_dir(d);
    }
    for (path, data) in &plains {
        p.add_file(path, B::s(data));
    }
    let linked = o.symlinks && rng.chance(1, 3);
    // the link's name differs from case to case: what one case taught a long-lived process about
    // a path must not be what the next case relies on
    let lnk_name = format!("lnk{}", rng.below(1000));
    if linked {
        p.entries.push(Entry::Symlink {
            path: lnk_name.clone(),
            target: "sub".into(),
        });
    }
    // more links: a directory link that leads back to an ancestor (a loop for a recursive scan),
    // a directory link that leads out of its directory's subtree, links to source files
    let loop_link = o.symlinks && rng.chance(1, 5);
    if loop_link {
        let (path, target) = *rng.pick(&[("sub/deep/up", "../.."), ("lib/back", ".."), ("sub/other/self", ".")]);
        p.entries.push(Entry::Symlink {
            path: path.into(),
            target: target.into(),
        });
    }
    if o.symlinks && rng.chance(1, 6) {
        p.entries.push(Entry::Symlink {
            path: "sub/other/ext".into(),
            target: "../../lib".into(),
        });
    }
    let file_links = o.symlinks && rng.chance(1, 4);
    let mut paths: Vec<String> = vec![];
    for i in 0..n {
        if i % 2 == 1 && rng.chance(1, 6) {
            // same directory and stem as the previous source, another extension: the two outputs
            // differ only in their last extension
            let prev: &String = &paths[i - 1];
            let d = parent_rel(prev);
            let name = format!("f{}.md.txtpp", i - 1);
            paths.push(if d.is_empty() { name } else { format!("{d}/{name}") });
            continue;
        }
        let d = DIRS[if rng.chance(1, 2) { 0 } else { rng.below(DIRS.len()) }];
        let name = source_name_b(rng, i, o.dotted, true);
        paths.push(if d.is_empty() { name } else { format!("{d}/{name}") });
    }
    let outs: Vec<String> = paths.iter().map(|s| names::out_path(s).unwrap()).collect();
    if file_links {
        // `links/` holds nothing but links to sources that live elsewhere
        p.add_dir("links");
        for (i, sp) in paths.iter().enumerate() {
            if rng.chance(1, 2) {
                let name = match rng.below(3) {
                    0 => format!("l{i}.txt.txtpp"),
                    1 => format!("l{i}.txtpp.md"),
                    _ => format!("l{i}.txtpp"),
                };
                p.entries.push(Entry::Symlink {
                    path: format!("links/{name}"),
                    target: format!("../{sp}"),
                });
            }
        }
    }
    let big_file = if o.big && rng.chance(1, 6) { Some(rng.below(n)) } else { None };
    let huge = rng.chance(1, 4);
    let mut temp_ctr = 0;
    let mut dep_lines: Vec<(usize, String, usize)> = vec![];
    for i in 0..n {
        let dir = parent_rel(&paths[i]).to_string();
        let mut b = SrcB::new(
            if rng.chance(1, 4) { "\r\n" } else { "\n" },
            !rng.chance(1, 6),
            rng.chance(1, 8),
        );
        let mut deps: Vec<usize> = edges.iter().filter(|(a, _)| *a == i).map(|(_, b)| *b).collect();
        rng.shuffle(&mut deps);
        // duplicated dependency lines now and then
        if !deps.is_empty() && rng.chance(1, 5) {
            // anywhere in the list: a repeated dependency in front of one that is still new
            let d = *rng.pick(&deps);
            let at = rng.below(deps.len() + 1);
            deps.insert(at, d);
            if rng.chance(1, 3) {
                let at = rng.below(deps.len() + 1);
                deps.insert(at, d);
            }
        }
        b.push(format!("file {i} begins"));
        if rng.chance(1, 4) {
            // U+FFFD in the output: what a lossy decoding of almost anything also gives
            b.push("replacement \u{fffd} character".into());
        }
        // dependency-free part
        let pre = rng.below(4);
        for _ in 0..pre {
            gen_free_element(rng, o, &mut b, &dir, i, &plains, &mut temp_ctr, deps.is_empty(), &outs[i], &outs);
        }
        if o.read_above && !deps.is_empty() && rng.chance(1, 5) {
            // a command above the dependency line that reads the dependency's output: the first
            // pass may see anything, the text that counts is what it prints in the final pass
            let x = rel_path(&dir, &outs[deps[0]]);
            b.push(format!("+TXTPP#run cat '{x}' 2>/dev/null || true"));
            b.push("above the dependency".into());
        }
        for (k, dj) in deps.iter().enumerate() {
            let x = rel_path(&dir, &outs[*dj]);
            let x = if linked && outs[*dj].starts_with("sub/") && rng.chance(1, 2) {
                // the same file through the symlinked directory
                rel_path(&dir, &format!("{lnk_name}/{}", &outs[*dj][4..]))
            } else {
                x
            };
            let x = match rng.below(8) {
                0 => format!("./{x}"),
                1 if o.absolute => format!("@ROOT@/{}", outs[*dj]),
                _ => x,
            };
            let kw = if rng.chance(1, 3) { "after" } else { "include" };
            let ws = if kw == "include" { *rng.pick(&WSS) } else { "" };
            let pf = if rng.chance(1, 3) { *rng.pick(&PREFIXES) } else { "" };
            if k >= 1 && !pf.is_empty() && rng.chance(1, 4) {
                // a multi-line-capable directive with the same indentation and prefix further up,
                // separated from the dependency line by ordinary text only
                b.push(format!("{ws}{pf}TXTPP#run printf 'before a later dependency\\n'"));
                b.push("text between the command and the dependency line".into());
            }
            b.push(format!("{ws}{pf}TXTPP#{kw} {x}"));
            dep_lines.push((i, format!("{ws}{pf}TXTPP#{kw} {x}"), *dj));
            if o.probes && rng.chance(1, 2) {
                b.push(format!("-TXTPP#run {}", probe_cmd(&x, &format!("{i}.{dj}.{k}"))));
            }
            if rng.chance(1, 3) {
                // the README idiom: a command that reads the dependency output
                if o.mark_all {
                    b.push(format!("-TXTPP#run cat '{x}'; {}", marker_cmd(&format!("c{i}.{k}"))));
                } else {
                    b.push(format!("-TXTPP#run cat '{x}'"));
                }
            }
            if o.markers && rng.chance(1, 3) {
                b.push(format!("-TXTPP#run {}", marker_cmd(&format!("a{i}.{k}"))));
            }
            let post = rng.below(3);
            for _ in 0..post {
                gen_free_element(rng, o, &mut b, &dir, i, &plains, &mut temp_ctr, false, &outs[i], &outs);
            }
        }
        if Some(i) == big_file {
            let reps = if huge { 900 } else { 120 };
            for r in 0..reps {
                b.push(format!(
                    "big line {r:04} of file {i} ........................................................................"
                ));
            }
        }
        b.push(format!("file {i} ends"));
        p.add_file(&paths[i], B(b.render(rng).into_bytes()));
    }
    if o.temps {
        // a depender may consume a by-product of its dependency: below the dependency line it
        // includes a temp file that the dependency writes
        let a = crate::spec::analyze(&p);
        let mut done: BTreeSet<(usize, usize)> = BTreeSet::new();
        for (i, line, dj) in &dep_lines {
            let (si, sj) = match (a.by_path.get(&paths[*i]), a.by_path.get(&paths[*dj])) {
                (Some(x), Some(y)) => (*x, *y),
                _ => continue,
            };
            if si == sj || a.sources[sj].temps.is_empty() || !rng.chance(1, 3) || !done.insert((*i, *dj)) {
                continue;
            }
            let t = rng.pick(&a.sources[sj].temps).clone();
            let text = match p.file(&paths[*i]) {
                Some(d) => d.lossy(),
                None => continue,
            };
            // the dependency line itself: a whole line, not a line that merely quotes it
            let mut found: Option<usize> = None;
            let mut off = 0;
            for l in text.split_inclusive('\n') {
                if l.trim_end_matches(['\r', '\n']) == line.as_str() {
                    found = Some(off);
                    break;
                }
                off += l.len();
            }
            if let Some(pos) = found {
                // end of that line
                let after = pos + line.len();
                if let Some(nl) = text[after..].find('\n') {
                    let at = after + nl + 1;
                    let eol = crate::spec::line_ending(&text);
                    let ins = format!("TXTPP#include {}{eol}", rel_path(parent_rel(&paths[*i]), &t));
                    let new = format!("{}{}{}", &text[..at], ins, &text[at..]);
                    p.set_file(&paths[*i], B(new.into_bytes()));
                }
            }
        }
    }
    if o.decoys {
        // a temp target `sub\\t.tmp` is a file name; `sub/t.tmp` may exist as somebody else's file
        let a = crate::spec::analyze(&p);
        for s in &a.sources {
            for t in &s.temps {
                if let Some((head, rest)) = names::file_name(t).split_once('\\') {
                    let d = join_rel(parent_rel(t), head).unwrap_or_default();
                    if DIRS.contains(&d.as_str()) && rng.chance(1, 2) {
                        let decoy = format!("{d}/{rest}");
                        if p.file(&decoy).is_none() && !a.gen_all().contains(&decoy) {
                            p.add_file(&decoy, B::s("somebody else's file\n"));
                        }
                    }
                }
            }
        }
    }
    if o.sized && rng.chance(1, 8) {
        // a directive marker that lies across a multiple of 8192 in its source (readers work in
        // 8 KiB pieces): padding lines go in after the first line
        let a = crate::spec::analyze(&p);
        if a.n() > 0 {
            let s = &a.sources[rng.below(a.n())];
            if let Some(d) = p.file(&s.path).cloned() {
                let text = d.lossy();
                let marks: Vec<usize> = text.match_indices("TXTPP#").map(|(i, _)| i).collect();
                let first_nl = text.find('\n');
                if let (false, Some(nl)) = (marks.is_empty(), first_nl) {
                    let m = *rng.pick(&marks);
                    if m > nl {
                        let eol = crate::spec::line_ending(&text);
                        // the marker (6 bytes) plus the directive name start inside the last bytes
                        // of a piece: offset of `T` is 8192*j - r
                        let r = rng.range(1, 10);
                        let j = rng.range(1, 3);
                        let want = 8192 * j - r;
                        if want > m + 2 * eol.len() + 8 {
                            let mut need = want - m;
                            let mut pad = String::new();
                            // whole lines of at most 80 characters, the last one fits exactly
                            while need > 0 {
                                let line_len = if need > 90 + eol.len() { 80 } else { need - eol.len().min(need) };
                                if need < eol.len() + 1 {
                                    break;
                                }
                                pad.push_str(&"p".repeat(line_len));
                                pad.push_str(eol);
                                need -= line_len + eol.len();
                            }
                            if need == 0 {
                                let new = format!("{}{}{}", &text[..nl + 1], pad, &text[nl + 1..]);
                                p.set_file(&s.path, B(new.into_bytes()));
                            }
                        }
                    }
                }
            }
        }
    }
    if o.sized && rng.chance(1, 6) {
        // buffer-size boundaries of readers and writers (8 KiB) and the empty output
        let mut size = *rng.pick(&[0usize, 0, 1, 8191, 8192, 8192, 8193, 16384, 65536]);
        if o.mega && rng.chance(1, 6) {
            size = 1_200_000;
        }
        let mut text = String::new();
        while text.len() + 64 <= size {
            text.push_str(&format!("{:063}\n", text.len() / 64));
        }
        while text.len() < size {
            if text.len() + 1 == size {
                text.push('\n');
            } else {
                text.push('z');
            }
        }
        p.add_file(&format!("sized{size}.txt.txtpp"), B(text.into_bytes()));
    }
    if o.sized && rng.chance(1, 8) {
        // a source that is one unterminated line: no line ending of its own to go by
        let text = match rng.below(3) {
            0 => "a single line without a line break".to_string(),
            1 => "TXTPP#include lib/plain3.txt".to_string(),
            _ => "-TXTPP#run printf 'l1\\nl2\\nl3\\n'".to_string(),
        };
        p.add_file("oneline.txt.txtpp", B(text.into_bytes()));
    }
    if o.scratch_dir && rng.chance(1, 10) {
        p.add_dir("scratch_area");
        p.add_dir("scratch_area/inner");
        let a = crate::spec::analyze(&p);
        if a.n() > 0 {
            let s = &a.sources[rng.below(a.n())];
            if let Some(d) = p.file(&s.path).cloned() {
                let t = d.lossy();
                let eol = crate::spec::line_ending(&t);
                let mut t2 = t.clone();
                if !t2.is_empty() && !t2.ends_with('\n') {
                    t2.push_str(eol);
                }
                let target = rel_path(&s.dir, "scratch_area");
                t2.push_str(&format!("~{eol}-TXTPP#run rm -rf '{target}'; printf 'cleared\\n'{eol}after clearing{eol}"));
                p.set_file(&s.path, B(t2.into_bytes()));
            }
        }
    }
    if o.wide && rng.chance(1, 10) {
        // usually a few dozen, now and then several hundred (more than a 256-slot queue holds)
        let m = if rng.chance(1, 8) { rng.range(300, 420) } else { rng.range(20, 44) };
        for k in 0..m {
            p.add_file(&format!("wide/w{k}.txt.txtpp"), B(format!("wide {k}\n").into_bytes()));
        }
    }
    if o.decoys {
        for d in ["txtpp", ".txtpp", "a.txtpp.b.c", "sub/notes.txt", "lib/f0.txt.bak"] {
            if rng.chance(1, 2) && p.file(d).is_none() {
                p.add_file(d, B::s(&format!("decoy {d}\n")));
            }
        }
    }
    p
}

#[allow(clippy::too_many_arguments)]
fn gen_free_element(
    rng: &mut Rng,
    o: &GraphOpts,
    b: &mut SrcB,
    dir: &str,
    i: usize,
    plains: &[(String, &str)],
    temp_ctr: &mut usize,
    marker_ok: bool,
    own_out: &str,
    all_outs: &[String],
) {
    let ws = *rng.pick(&WSS);
    let pf = *rng.pick(&PREFIXES);
    match rng.below(12) {
        0..=3 => b.push((*rng.pick(&TEXTS)).to_string()),
        4 => {
            let (pp, _) = rng.pick(plains);
            b.push(format!("{ws}TXTPP#include {}", rel_path(dir, pp)));
        }
        5 => {
            let c = *rng.pick(&[
                "printf 'c1\\n'",
                "printf 'nonl'",
                "printf 'a\\n\\nb\\n'",
                "printf 'x\\r\\ny\\r\\n'",
                "printf ''",
                // not valid UTF-8: txtpp decodes command output lossily
                "printf 'bad\\377byte\\n'",
                // a command that reads its standard input (txtpp gives it /dev/null)
                "cat; printf 'nothing on stdin\\n'",
                // more on stderr than a pipe holds, while stdout is still open
                "head -c 150000 /dev/zero | tr '\\0' 'e' >&2; printf 'after the flood\\n'",
            ]);
            if o.mark_all {
                let id = format!("r{i}.{}", b.lines.len());
                b.push(format!("{ws}{pf}TXTPP#run {c}; {}", marker_cmd(&id)));
            } else {
                b.push(format!("{ws}{pf}TXTPP#run {c}"));
            }
        }
        6 => {
            if o.markers && marker_ok {
                let id = format!("f{i}.{}", b.lines.len());
                b.push(format!("{ws}{pf}TXTPP#run {}", marker_cmd(&id)));
            } else {
                b.push("plain text".into());
            }
        }
        7 => {
            if o.temps {
                *temp_ctr += 1;
                let tdir = if rng.chance(1, 4) { *rng.pick(&DIRS) } else { dir };
                let own_stem_tmp = {
                    let f = names::file_name(own_out);
                    let stem = match f.rsplit_once('.') {
                        Some((st, _)) if !st.is_empty() => st,
                        _ => f,
                    };
                    format!("{stem}.tmp")
                };
                // at most one directive per target (two would rewrite each other's content)
                let already = b.lines.iter().any(|l| l.contains(&own_stem_tmp));
                let tpath = if rng.chance(1, 6) && !own_out.ends_with(".md") && !already {
                    // a temp file named like the output with another extension (f1.txt -> f1.tmp)
                    let f = names::file_name(own_out);
                    let stem = match f.rsplit_once('.') {
                        Some((st, _)) if !st.is_empty() => st,
                        _ => f,
                    };
                    join_rel(parent_rel(own_out), &format!("{stem}.tmp")).unwrap_or_else(|| format!("{stem}.tmp"))
                } else {
                    // now and then a backslash in the file name (an ordinary character here)
                    let name = if rng.chance(1, 10) {
                        // (the part before the backslash may be the name of a directory that exists)
                        let head = match tdir {
                            "" => *rng.pick(&["sub", "lib", "nodir"]),
                            "sub" => *rng.pick(&["deep", "other", "nodir"]),
                            _ => "nodir",
                        };
                        format!("{head}\\t{i}_{temp_ctr}.tmp")
                    } else {
                        format!("t{i}_{temp_ctr}.tmp")
                    };
                    if tdir.is_empty() {
                        name
                    } else {
                        format!("{tdir}/{name}")
                    }
                };
                let mut g = vec![format!("{ws}{pf}TXTPP#temp {}", rel_path(dir, &tpath))];
                let body_lines = if o.big && rng.chance(1, 10) { 700 } else { rng.below(3) };
                for k in 0..body_lines {
                    // (a big body now and then: a temp file of more than 8 KiB)
                    g.push(format!("{ws}{pf}temp body {k} ü"));
                }
                if rng.chance(1, 3) {
                    g.push(format!("{ws}{}", pf.trim_end()));
                }
                b.group(g);
                if rng.chance(1, 2) {
                    // the README pattern: a command that consumes the temp file just written
                    let cmd = format!("cat '{}'", rel_path(dir, &tpath));
                    if o.mark_all {
                        let id = format!("t{i}.{}", b.lines.len());
                        b.push(format!("+TXTPP#run {cmd}; {}", marker_cmd(&id)));
                    } else {
                        b.push(format!("+TXTPP#run {cmd}"));
                    }
                }
                b.push("after temp".into());
            }
        }
        8 => {
            let mut g = vec![format!("{ws}{pf}TXTPP#write written {i}")];
            if rng.chance(1, 2) {
                g.push(format!("{ws}{pf}TXTPP#run not executed"));
            }
            if rng.chance(1, 3) {
                // text that looks like a temp directive naming an existing, unrelated file
                let (pp, _) = rng.pick(plains);
                g.push(format!("{ws}{pf}TXTPP#temp {}", rel_path(dir, pp)));
            }
            if rng.chance(1, 3) && !all_outs.is_empty() {
                // text that quotes a dependency directive on a generated file (this file's own
                // output, a depender's, anybody's): an argument of `write`, never an edge
                let x = rng.pick(all_outs);
                let kw = if rng.chance(1, 3) { "after" } else { "include" };
                // (two blanks after the name: never the same text as a real dependency line)
                g.push(format!("{ws}{pf}TXTPP#{kw}  {}", rel_path(dir, x)));
            }
            b.group(g);
            b.push("after write".into());
        }
        9 => {
            // tag: create, store (non-empty output), use
            let t = format!("TAG{}", b.lines.len());
            b.push(format!("{pf}TXTPP#tag {t}"));
            if o.mark_all {
                let id = format!("g{i}.{}", b.lines.len());
                b.push(format!("{pf}TXTPP#run printf 'tagged\\nvalue'; {}", marker_cmd(&id)));
            } else {
                b.push(format!("{pf}TXTPP#run printf 'tagged\\nvalue'"));
            }
            b.push(format!("<{t}>"));
        }
        10 => {
            b.push(format!("{ws}{pf}TXTPP#"));
            b.push("after empty".into());
        }
        _ => b.push(format!("text {}", rng.below(1000))),
    }
}

/// Pick n with 80 % mass on <= 4.
pub fn pick_n(rng: &mut Rng, max_n: usize) -> usize {
    let n = if rng.chance(4, 5) {
        rng.range(1, 4)
    } else {
        rng.range(5, max_n.max(7))
    };
    n.min(max_n).max(1)
}

// ------------------------------------------------------------------------------------------
// R-inputs: set semantics of input resolution (from the README / C11's statement)

#[derive(Clone, Debug, PartialEq)]
pub enum Resolved {
    Sources(BTreeSet<usize>),
    /// a named target has no source (or does not exist)
    Error(String),
}

/// Which sources do `inputs` name? (no dependency closure)
pub fn r_inputs(p: &Project, a: &Analysis, base: &str, inputs: &[String], recursive: bool) -> Resolved {
    let dirs: BTreeSet<String> = {
        let mut d: BTreeSet<String> = BTreeSet::new();
        d.insert(String::new());
        for e in &p.entries {
            match e {
                Entry::Dir { path } => {
                    d.insert(path.clone());
                }
                Entry::File { path, .. } | Entry::Symlink { path, .. } => {
                    let mut cur = parent_rel(path);
                    while !cur.is_empty() {
                        d.insert(cur.to_string());
                        cur = parent_rel(cur);
                    }
                }
            }
        }
        d
    };
    let mut set = BTreeSet::new();
    for inp in inputs {
        // the operating system's view: symlinked directories resolved
        let t = if let Some(r) = inp.strip_prefix("@ROOT@/") {
            p.resolve(r)
        } else if inp == "@ROOT@" {
            Some(String::new())
        } else if base.is_empty() {
            p.resolve(inp)
        } else {
            p.resolve(&format!("{base}/{inp}"))
        };
        let t = match t {
            Some(t) => t,
            None => return Resolved::Error(format!("input {inp} leaves the tree")),
        };
        if dirs.contains(&t) {
            // a scan lists the regular files of the directory and the symbolic links in it: a
            // link named like a source that leads to a source stands for that source; with
            // recursion, sub-directories (linked ones through their targets) are scanned too,
            // each directory once however it is reached
            let mut todo = vec![t.clone()];
            let mut seen_dirs: BTreeSet<String> = BTreeSet::new();
            while let Some(d) = todo.pop() {
                if !seen_dirs.insert(d.clone()) {
                    continue;
                }
                for (i, s) in a.sources.iter().enumerate() {
                    if s.dir == d {
                        set.insert(i);
                    }
                }
                for e in &p.entries {
                    match e {
                        Entry::Symlink { path, .. } if parent_rel(path) == d => {
                            if let Some(r) = p.resolve(path) {
                                if dirs.contains(&r) {
                                    if recursive {
                                        todo.push(r);
                                    }
                                } else if names::is_source_name(names::file_name(path)) {
                                    if let Some(i) = a.by_path.get(&r) {
                                        set.insert(*i);
                                    }
                                }
                            }
                        }
                        Entry::Dir { path } if recursive && !path.is_empty() && parent_rel(path) == d => {
                            todo.push(path.clone());
                        }
                        _ => {}
                    }
                }
                if recursive {
                    // directories that exist only as parents of planted files
                    for x in &dirs {
                        if !x.is_empty() && parent_rel(x) == d {
                            todo.push(x.clone());
                        }
                    }
                }
            }
            continue;
        }
        let f = names::file_name(&t);
        if names::is_source_name(f) {
            match a.by_path.get(&t) {
                Some(i) => {
                    set.insert(*i);
                }
                None => return Resolved::Error(format!("source {t} does not exist")),
            }
            continue;
        }
        match a.by_out.get(&t) {
            Some(i) => {
                set.insert(*i);
            }
            None => return Resolved::Error(format!("target {t} has no source")),
        }
    }
    Resolved::Sources(set)
}

/// A seeded input selection for graph engines: always resolvable, never empty.
pub fn gen_inputs(rng: &mut Rng, a: &Analysis, aliases: bool) -> (Vec<String>, bool) {
    gen_inputs_l(rng, a, aliases, None)
}

/// `link`: name of the root-level link to `sub`, if the project has one
pub fn gen_inputs_l(rng: &mut Rng, a: &Analysis, aliases: bool, link: Option<&str>) -> (Vec<String>, bool) {
    let has_link = link.is_some();
    let lnk_name = link.unwrap_or("lnk");
    let n = a.n();
    let recursive = !rng.chance(1, 5);
    match rng.below(10) {
        0..=3 => (vec![".".into()], true),
        4 => {
            // one source by output name
            let i = rng.below(n);
            (vec![a.sources[i].out.clone()], recursive)
        }
        5 => {
            let i = rng.below(n);
            (vec![a.sources[i].path.clone()], recursive)
        }
        _ => {
            let k = rng.range(1, n.min(3));
            let mut v = vec![];
            for _ in 0..k {
                let i = rng.below(n);
                let s = &a.sources[i];
                let form = rng.below(if aliases { 7 } else { 2 });
                v.push(match form {
                    0 => s.out.clone(),
                    1 => s.path.clone(),
                    2 => format!("./{}", s.out),
                    3 => format!("@ROOT@/{}", s.path),
                    4 => {
                        // through a directory and back
                        if s.dir.is_empty() {
                            format!("sub/../{}", s.out)
                        } else {
                            let last = s.dir.rsplit('/').next().unwrap_or("");
                            format!("{}/../{last}/{}", s.dir, names::file_name(&s.out))
                        }
                    }
                    5 => {
                        if s.dir.is_empty() {
                            ".".into()
                        } else {
                            s.dir.clone()
                        }
                    }
                    _ => s.out.clone(),
                });
                if aliases && rng.chance(1, 4) {
                    // name the same file twice, by the other name
                    v.push(s.path.clone());
                }
                if aliases && has_link && s.out.starts_with("sub/") && rng.chance(1, 2) {
                    // and once more through the symlinked directory
                    v.push(format!("{lnk_name}/{}", &s.out[4..]));
                }
            }
            (v, recursive)
        }
    }
}

pub fn pick_policy(rng: &mut Rng) -> Policy {
    *rng.pick(&POLICIES)
}

pub fn pick_sched(rng: &mut Rng, seed: u64) -> Sched {
    Sched::seeded(seed, pick_policy(rng), rng.chance(1, 4))
}


/// F1/F2/F3: make one source erroneous by inserting a bad line. Returns a label of the fault.
pub fn inject_error(rng: &mut Rng, p: &mut Project, src: &str) -> String {
    let data = match p.file(src) {
        Some(d) => d.lossy(),
        None => return "none".into(),
    };
    let eol = crate::spec::line_ending(&data);
    let mut lines: Vec<String> = crate::spec::split_lines(&data).iter().map(|s| s.to_string()).collect();
    let kinds = [
        "tag-while-listening",
        "prefixless-multiline",
        "temp-target-txtpp",
        "include-missing",
        "command-fails",
        "unused-tag",
        "include-directory",
        "temp-target-is-directory",
        "temp-target-infix-source",
    ];
    let kind = *rng.pick(&kinds);
    // an existing source spelled NAME.txtpp.EXT, seen from the directory of `src`
    let infix: String = {
        let dir = parent_rel(src);
        p.files()
            .map(|(q, _)| q.to_string())
            .find(|q| {
                let f = names::file_name(q);
                f.contains(".txtpp.") && names::is_source_name(f) && q != src
            })
            .map(|q| rel_path(dir, &q))
            .unwrap_or_else(|| "other.txtpp.txt".to_string())
    };
    let bad: Vec<String> = match kind {
        "tag-while-listening" => vec!["TXTPP#tag TA".into(), "TXTPP#tag TB".into()],
        "prefixless-multiline" => vec!["TXTPP#run printf x".into()],
        "temp-target-txtpp" => vec!["-TXTPP#temp bad.txt.txtpp".into(), "-body".into()],
        "include-missing" => vec!["TXTPP#include no_such_file.txt".into()],
        "command-fails" => vec!["-TXTPP#run exit 3".into()],
        "unused-tag" => vec!["TXTPP#tag NEVERUSED".into(), "-TXTPP#run printf stored".into()],
        "temp-target-is-directory" => vec!["-TXTPP#temp .".into(), "-body".into()],
        "temp-target-infix-source" => vec![format!("-TXTPP#temp {infix}"), "-body".into()],
        _ => vec!["TXTPP#include .".into()],
    };
    // at an element boundary (never between a directive and its continuation lines)
    let starts: Vec<usize> = crate::spec::element_starts(&data).into_iter().filter(|i| *i >= 1).collect();
    let at = if starts.is_empty() { lines.len() } else { *rng.pick(&starts) };
    let mut guard = vec![];
    // keep the bad lines from being swallowed as continuation of the element before
    guard.push("~".to_string());
    guard.extend(bad);
    guard.push("~".to_string());
    for (k, l) in guard.into_iter().enumerate() {
        lines.insert((at + k).min(lines.len()), l);
    }
    let mut text = lines.join(eol);
    text.push_str(eol);
    p.set_file(src, B(text.into_bytes()));
    kind.to_string()
}
