//! R-spec: executable reading of the README (and CHANGELOG where the README lags).
//! Shares no code with txtpp and is shaped differently: the source is parsed into items
//! (ordinary line | directive with its argument lines); the output is the concatenation of
//! "line + line ending" for ordinary lines and of the indented, line-ending-normalised result for
//! directives; then the end-of-file rule (DESIGN.md 4.3 item 7).
use crate::model::Project;
use crate::spec::{self, Analysis, Dir, Elem};
use crate::tree::norm_rel;
use std::collections::BTreeMap;

#[derive(Clone, Debug, PartialEq)]
pub enum SpecErr {
    /// the semantics prescribe an error
    Error(String),
    /// the model cannot decide (outside the domain, unknown command): no verdict
    Unknown(String),
}

#[derive(Clone, Debug)]
pub struct FileOut {
    pub out: String,
    /// false: the source ends with a directive, trailing line endings are unspecified
    pub exact: bool,
    /// temp files (tree-relative path -> content) in order of creation
    pub temps: Vec<(String, String)>,
}

/// What a command prints, as the generator defined it.
#[derive(Clone, Debug, serde::Serialize, serde::Deserialize, PartialEq)]
pub enum CmdSpec {
    /// prints these bytes, exits 0
    Lit(String),
    /// prints the content of this tree-relative plain file
    CatPlain(String),
    /// prints the output of this tree-relative source (must be a finished dependency)
    CatOut(String),
    /// exits with this non-zero status (after printing nothing that matters)
    Fail(i32),
}

pub struct Model<'a> {
    pub project: &'a Project,
    pub a: &'a Analysis,
    pub commands: &'a BTreeMap<String, CmdSpec>,
    pub trailing_newline: bool,
    memo: BTreeMap<usize, Result<FileOut, SpecErr>>,
    in_progress: Vec<usize>,
    /// per file being processed: sources already named by an include/after line above
    declared: Vec<Vec<usize>>,
}

fn norm_endings(text: &str, le: &str) -> String {
    let lines = spec::split_lines(text);
    let mut out = lines.join(le);
    if text.ends_with('\n') {
        out.push_str(le);
    }
    out
}

fn indent(result: &str, ws: &str, le: &str) -> String {
    let lines = spec::split_lines(result);
    let mut out = lines
        .iter()
        .map(|l| format!("{ws}{l}"))
        .collect::<Vec<_>>()
        .join(le);
    if result.ends_with('\n') {
        out.push_str(le);
    }
    out
}

impl<'a> Model<'a> {
    pub fn new(
        project: &'a Project,
        a: &'a Analysis,
        commands: &'a BTreeMap<String, CmdSpec>,
        trailing_newline: bool,
    ) -> Self {
        Model {
            project,
            a,
            commands,
            trailing_newline,
            memo: BTreeMap::new(),
            in_progress: vec![],
            declared: vec![],
        }
    }

    fn plain(&self, path: &str) -> Option<String> {
        self.project
            .file(path)
            .and_then(|d| String::from_utf8(d.0.clone()).ok())
    }

    fn is_dir(&self, path: &str) -> bool {
        path.is_empty()
            || self.project.entries.iter().any(|e| match e {
                crate::model::Entry::Dir { path: p } => p == path,
                other => other.path().starts_with(&format!("{path}/")),
            })
    }

    /// Content that `include arg` yields for a source in `dir`.
    fn include(&mut self, dir: &str, arg: &str) -> Result<String, SpecErr> {
        let target = match spec::resolve_arg_in(self.project, dir, arg) {
            Some(t) => t,
            None => return Err(SpecErr::Unknown(format!("include argument {arg:?} outside the domain"))),
        };
        if crate::names::is_source_name(crate::names::file_name(&target)) {
            // including a .txtpp file itself: its text as is
            return match self.plain(&target) {
                Some(t) => Ok(t),
                None => Err(SpecErr::Error(format!("include target {target} missing"))),
            };
        }
        if let Some(j) = self.a.by_out.get(&target).copied() {
            if let Some(d) = self.declared.last_mut() {
                d.push(j);
            }
            let r = self.process(j)?;
            if !r.exact {
                return Err(SpecErr::Unknown(format!(
                    "included output {target} ends with a directive (trailing line endings unspecified)"
                )));
            }
            return Ok(r.out);
        }
        if self.is_dir(&target) && self.project.file(&target).is_none() {
            return Err(SpecErr::Error(format!("include target {target} is a directory")));
        }
        match self.project.file(&target) {
            Some(d) => String::from_utf8(d.0.clone())
                .map_err(|_| SpecErr::Error(format!("include target {target} is not valid UTF-8"))),
            None => Err(SpecErr::Error(format!("include target {target} missing"))),
        }
    }

    fn run_command(&mut self, cmd: &str) -> Result<String, SpecErr> {
        let key = cmd.trim_end_matches(' ');
        let spec = match self.commands.get(key) {
            Some(s) => s.clone(),
            None => return Err(SpecErr::Unknown(format!("command {cmd:?} not in the vocabulary"))),
        };
        match spec {
            CmdSpec::Lit(s) => Ok(s),
            CmdSpec::Fail(code) => Err(SpecErr::Error(format!("command exits {code}"))),
            CmdSpec::CatPlain(p) => match self.plain(&p) {
                Some(t) => Ok(t),
                None => Err(SpecErr::Unknown(format!("cat of missing file {p}"))),
            },
            CmdSpec::CatOut(src) => {
                let j = match self.a.by_path.get(&src).copied() {
                    Some(j) => j,
                    None => return Err(SpecErr::Unknown(format!("cat of unknown source {src}"))),
                };
                // 4.3 item 11: a command may read X only below an `after X` / `include X` line
                if !self.declared.last().map(|d| d.contains(&j)).unwrap_or(false) {
                    return Err(SpecErr::Unknown("cat of an output that no line above declares as dependency".into()));
                }
                let r = self.process(j)?;
                if !r.exact {
                    return Err(SpecErr::Unknown("cat of an output with unspecified end".into()));
                }
                Ok(r.out)
            }
        }
    }

    /// Output, temp files or prescribed error for source `i`.
    pub fn process(&mut self, i: usize) -> Result<FileOut, SpecErr> {
        if let Some(r) = self.memo.get(&i) {
            return r.clone();
        }
        if self.in_progress.contains(&i) {
            return Err(SpecErr::Error("dependency cycle".into()));
        }
        self.in_progress.push(i);
        self.declared.push(vec![]);
        let r = self.process_inner(i);
        self.declared.pop();
        self.in_progress.pop();
        self.memo.insert(i, r.clone());
        r
    }

    fn process_inner(&mut self, i: usize) -> Result<FileOut, SpecErr> {
        let s = self.a.sources[i].clone();
        let text = match &s.text {
            Some(t) => t.clone(),
            None => return Err(SpecErr::Error("source is not valid UTF-8".into())),
        };
        if text.contains('\r') && text.replace("\r\n", "").contains('\r') {
            return Err(SpecErr::Unknown("lone CR in source".into()));
        }
        let le = spec::line_ending(&text);
        let lines = spec::split_lines(&text);
        // items of the output
        enum Item {
            Text(String),
            Result(String),
        }
        let mut items: Vec<Item> = vec![];
        let mut temps: Vec<(String, String)> = vec![];
        let mut listening: Option<String> = None;
        let mut stored: Vec<(String, String)> = vec![];

        // the grouping of lines into elements is purely syntactic
        let (elems, _perr) = spec::parse(&text);
        let _ = lines;
        for e in elems.iter() {
            match e {
                Elem::ErrLine(_) => {
                    return Err(SpecErr::Error("multi-line directive without prefix".into()));
                }
                Elem::Text(line) => {
                    // substitute stored tags: first occurrence of each, leftmost first,
                    // overlapped occurrences are left alone, substituted text is not rescanned
                    let mut hits: Vec<(usize, usize)> = vec![];
                    for (k, (name, _)) in stored.iter().enumerate() {
                        if let Some(pos) = line.find(name.as_str()) {
                            hits.push((pos, k));
                        }
                    }
                    hits.sort();
                    let mut out = String::new();
                    let mut last = 0usize;
                    let mut used: Vec<usize> = vec![];
                    for (pos, k) in hits {
                        if pos < last {
                            continue;
                        }
                        out.push_str(&line[last..pos]);
                        out.push_str(&norm_endings(&stored[k].1, le));
                        last = pos + stored[k].0.len();
                        used.push(k);
                    }
                    out.push_str(&line[last..]);
                    used.sort();
                    for k in used.into_iter().rev() {
                        stored.remove(k);
                    }
                    items.push(Item::Text(out));
                }
                Elem::D(d) => {
                    let res = self.execute(d, &s.dir, le, &mut listening, &stored, &mut temps)?;
                    if let Some(r) = res {
                        if let Some(t) = listening.take() {
                            if r.is_empty() {
                                return Err(SpecErr::Unknown("tag captures empty output".into()));
                            }
                            stored.push((t, r));
                        } else {
                            items.push(Item::Result(indent(&r, &d.ws, le)));
                        }
                    }
                }
            }
        }
        if listening.is_some() || !stored.is_empty() {
            return Err(SpecErr::Error("unused tag at end of file".into()));
        }
        let mut out = String::new();
        for it in &items {
            match it {
                Item::Text(s) => {
                    out.push_str(s);
                    out.push_str(le);
                }
                Item::Result(s) => out.push_str(s),
            }
        }
        let last_is_text = matches!(items.last(), Some(Item::Text(_)));
        // exactness (4.3 item 7): the *source* must end with an ordinary line, or be empty
        let src_ends_with_text = matches!(elems.last(), Some(Elem::Text(_)));
        if last_is_text && !self.trailing_newline {
            out.truncate(out.len() - le.len());
        }
        let exact = elems.is_empty() || (src_ends_with_text && last_is_text);
        Ok(FileOut { out, exact, temps })
    }

    #[allow(clippy::too_many_arguments)]
    fn execute(
        &mut self,
        d: &Dir,
        dir: &str,
        le: &str,
        listening: &mut Option<String>,
        stored: &[(String, String)],
        temps: &mut Vec<(String, String)>,
    ) -> Result<Option<String>, SpecErr> {
        if !d.prefix.is_ascii() && spec::is_multi(&d.name) {
            return Err(SpecErr::Unknown("non-ASCII prefix on a multi-line-capable directive".into()));
        }
        match d.name.as_str() {
            "" | "after" => {
                if d.name == "after" {
                    // behaves like include as far as the target goes; a missing target is outside
                    // the domain (4.3 item 10)
                    if let Some(t) = spec::resolve_arg_in(self.project, dir, &d.args[0]) {
                        let exists = self.a.by_out.contains_key(&t) || self.project.file(&t).is_some();
                        if !exists {
                            return Err(SpecErr::Unknown("after of a missing target".into()));
                        }
                        if let Some(j) = self.a.by_out.get(&t).copied() {
                            if let Some(dd) = self.declared.last_mut() {
                                dd.push(j);
                            }
                            // the dependency must itself build
                            self.process(j)?;
                        }
                    }
                }
                Ok(None)
            }
            "run" => {
                let cmd = d.args.join(" ");
                self.run_command(&cmd).map(Some)
            }
            "include" => {
                // a temp file written further up in this source holds what was saved to it
                if let Some(p) = spec::resolve_arg_in(self.project, dir, &d.args[0]) {
                    if let Some((_, c)) = temps.iter().rev().find(|(q, _)| *q == p) {
                        return Ok(Some(c.clone()));
                    }
                }
                self.include(dir, &d.args[0]).map(Some)
            }
            "write" => Ok(Some(d.args.join("\n"))),
            "temp" => {
                let target = &d.args[0];
                if crate::names::is_source_name(crate::names::file_name(target)) {
                    return Err(SpecErr::Error("temp target is a txtpp file".into()));
                }
                let path = match spec::resolve_arg_in(self.project, dir, target) {
                    Some(p) if !p.is_empty() => p,
                    _ => return Err(SpecErr::Unknown("temp target outside the domain".into())),
                };
                let parent = crate::tree::parent_rel(&path);
                if !self.is_dir(parent) {
                    return Err(SpecErr::Unknown("temp target in a missing directory".into()));
                }
                let content = d.args[1..].join(le);
                temps.retain(|(p, _)| p != &path);
                temps.push((path, content));
                Ok(None)
            }
            "tag" => {
                let t = d.args[0].clone();
                if t.is_empty() || t.contains(' ') || t.contains('\t') {
                    return Err(SpecErr::Unknown("tag name outside the domain".into()));
                }
                if listening.is_some() {
                    return Err(SpecErr::Error("tag created while another is listening".into()));
                }
                for (k, _) in stored {
                    if k.starts_with(t.as_str()) || t.starts_with(k.as_str()) {
                        return Err(SpecErr::Error("tag name equal to / prefix of a stored tag".into()));
                    }
                }
                *listening = Some(t);
                Ok(None)
            }
            other => Err(SpecErr::Unknown(format!("directive {other:?}"))),
        }
    }
}

pub fn norm_path(p: &str) -> Option<String> {
    norm_rel(p)
}
