//! Minimisation of a failing case: every candidate runs in a fresh child process and is kept
//! only if the same violation class recurs.
use crate::driver::ViolationRec;
use crate::model::*;
use crate::stats::CaseOutcome;
use std::io::Read;
use std::process::{Command, Stdio};
use std::time::{Duration, Instant};

struct Min {
    class: String,
    deadline: Instant,
    tried: usize,
    dir: std::path::PathBuf,
}

impl Min {
    fn out_of_time(&self) -> bool {
        Instant::now() > self.deadline || self.tried > 400
    }

    fn run(&mut self, case: &Case) -> Option<CaseOutcome> {
        self.tried += 1;
        let _ = std::fs::create_dir_all(&self.dir);
        let f = self.dir.join(format!("cand-{}.json", self.tried));
        std::fs::write(&f, serde_json::to_string(case).ok()?).ok()?;
        let exe = std::env::current_exe().ok()?;
        let mut child = Command::new(exe)
            .arg("runcase")
            .arg(&f)
            .stdin(Stdio::null())
            .stdout(Stdio::piped())
            .stderr(Stdio::null())
            .spawn()
            .ok()?;
        let mut so = child.stdout.take()?;
        let t0 = Instant::now();
        let h = std::thread::spawn(move || {
            let mut s = String::new();
            let _ = so.read_to_string(&mut s);
            s
        });
        loop {
            match child.try_wait() {
                Ok(Some(_)) => break,
                Ok(None) => {
                    if t0.elapsed() > Duration::from_secs(150) {
                        let _ = child.kill();
                        let _ = child.wait();
                        break;
                    }
                    std::thread::sleep(Duration::from_millis(5));
                }
                Err(_) => break,
            }
        }
        let s = h.join().ok()?;
        let _ = std::fs::remove_file(&f);
        let line = s.lines().last()?;
        serde_json::from_str::<CaseOutcome>(line).ok()
    }

    /// Does the case still fail the same way? Returns the recorded (strict) form.
    fn fails(&mut self, case: &Case) -> Option<Case> {
        let oc = self.run(case)?;
        if oc.harness_error.is_some() {
            return None;
        }
        match &oc.violation {
            Some(v) if v.class == self.class => Some(oc.recorded.unwrap_or_else(|| case.clone())),
            _ => None,
        }
    }
}

fn loosen(case: &Case) -> Case {
    let mut c = case.clone();
    for op in c.ops.iter_mut() {
        if let Op::Run { sched, .. } = op {
            sched.strict = false;
        }
    }
    c
}

fn split_keep_lines(data: &[u8]) -> Vec<Vec<u8>> {
    let mut out = vec![];
    let mut cur = vec![];
    for b in data {
        cur.push(*b);
        if *b == b'\n' {
            out.push(std::mem::take(&mut cur));
        }
    }
    if !cur.is_empty() {
        out.push(cur);
    }
    out
}

/// ddmin-style reduction of a list; `test` gets the candidate list.
fn reduce_list<T: Clone>(items: Vec<T>, min: &mut Min, test: &mut dyn FnMut(&mut Min, &[T]) -> bool) -> Vec<T> {
    let mut cur = items;
    let mut chunk = (cur.len() / 2).max(1);
    while !cur.is_empty() && !min.out_of_time() {
        let mut i = 0;
        let mut progressed = false;
        while i < cur.len() && !min.out_of_time() {
            let end = (i + chunk).min(cur.len());
            let mut cand = cur[..i].to_vec();
            cand.extend_from_slice(&cur[end..]);
            if test(min, &cand) {
                cur = cand;
                progressed = true;
            } else {
                i = end;
            }
        }
        if chunk == 1 && !progressed {
            break;
        }
        if chunk > 1 {
            chunk = (chunk / 2).max(1);
        } else if !progressed {
            break;
        }
    }
    cur
}

/// None = the violation could not be reproduced in a fresh process (three attempts): it was a
/// one-off caused by the environment, not a property of the code under test.
pub fn minimise_and_confirm(v: &ViolationRec, budget: Duration) -> Option<Replay> {
    let viol = v.outcome.violation.clone().unwrap();
    let original = v.outcome.recorded.clone().unwrap_or_else(|| v.case.clone());
    let mut min = Min {
        class: viol.class.clone(),
        deadline: Instant::now() + budget,
        tried: 0,
        dir: crate::driver::scratch_base().join("min"),
    };
    let fallback = Replay {
        violation: viol.clone(),
        case: original.clone(),
        trace: v.outcome.trace.clone(),
        minimised: false,
    };
    if viol.class == "process-abort" {
        // already confirmed by the driver (the process dies again in a fresh run)
        return Some(fallback);
    }
    // the strict recording must fail again in a fresh process before anything is reported
    let mut confirmed = false;
    for _ in 0..3 {
        if min.fails(&original).is_some() {
            confirmed = true;
            break;
        }
    }
    if !confirmed {
        let _ = std::fs::remove_dir_all(&min.dir);
        return None;
    }
    let mut cur = loosen(&original);
    if min.fails(&cur).is_none() {
        // not reproducible in loosened form: report the strict recording as is
        let _ = std::fs::remove_dir_all(&min.dir);
        return Some(fallback);
    }

    // 1. fewer pool threads
    for k in [1usize, 2] {
        let mut cand = cur.clone();
        let mut changed = false;
        for op in cand.ops.iter_mut() {
            if let Op::Run { cfg, .. } = op {
                if cfg.k > k {
                    cfg.k = k;
                    changed = true;
                }
            }
        }
        if changed && min.fails(&cand).is_some() {
            cur = cand;
            break;
        }
    }

    // 2. fewer operations (histories)
    if cur.ops.len() > 1 {
        let ops = cur.ops.clone();
        let base = cur.clone();
        let kept = reduce_list(ops, &mut min, &mut |m, cand| {
            if cand.is_empty() {
                return false;
            }
            let mut c = base.clone();
            c.ops = cand.to_vec();
            m.fails(&c).is_some()
        });
        cur.ops = kept;
    }

    // 3. fewer project entries (files first, then directories)
    {
        let entries = cur.project.entries.clone();
        let base = cur.clone();
        let kept = reduce_list(entries, &mut min, &mut |m, cand| {
            let mut c = base.clone();
            c.project.entries = cand.to_vec();
            m.fails(&c).is_some()
        });
        cur.project.entries = kept;
    }

    // 4. fewer lines per file
    let paths: Vec<String> = cur.project.files().map(|(p, _)| p.to_string()).collect();
    for p in paths {
        if min.out_of_time() {
            break;
        }
        let data = match cur.project.file(&p) {
            Some(d) => d.0.clone(),
            None => continue,
        };
        let lines = split_keep_lines(&data);
        if lines.len() < 2 {
            continue;
        }
        let base = cur.clone();
        let kept = reduce_list(lines, &mut min, &mut |m, cand| {
            let mut c = base.clone();
            c.project.set_file(&p, B(cand.concat()));
            m.fails(&c).is_some()
        });
        cur.project.set_file(&p, B(kept.concat()));
    }

    // 5. schedule: shrink the deviation from the canonical schedule
    for oi in 0..cur.ops.len() {
        if min.out_of_time() {
            break;
        }
        // refresh the script with what the current case actually does
        if let Some(rec) = min.fails(&cur) {
            cur = loosen(&rec);
        }
        let script = match &cur.ops[oi] {
            Op::Run { sched, .. } => sched.script.clone().unwrap_or_default(),
            _ => continue,
        };
        if script.is_empty() {
            continue;
        }
        let base = cur.clone();
        let kept = reduce_list(script, &mut min, &mut |m, cand| {
            let mut c = base.clone();
            if let Op::Run { sched, .. } = &mut c.ops[oi] {
                sched.script = Some(cand.to_vec());
                sched.strict = false;
            }
            m.fails(&c).is_some()
        });
        if let Op::Run { sched, .. } = &mut cur.ops[oi] {
            sched.script = Some(kept);
        }
    }

    // 6. final recording (strict) and confirmation in a fresh process
    let result = match min.fails(&cur) {
        Some(rec) => {
            let oc = min.run(&rec);
            match oc {
                Some(oc)
                    if oc.harness_error.is_none()
                        && oc.violation.as_ref().map(|x| x.class == viol.class).unwrap_or(false) =>
                {
                    Replay {
                        violation: oc.violation.clone().unwrap(),
                        case: rec,
                        trace: oc.trace,
                        minimised: true,
                    }
                }
                _ => fallback,
            }
        }
        None => fallback,
    };
    let _ = std::fs::remove_dir_all(&min.dir);
    Some(result)
}
