//! Scratch tree: planting a project, snapshots, diffs.
use crate::model::{Entry, Project, B};
use std::collections::BTreeMap;
use std::os::unix::fs::MetadataExt;
use std::path::{Path, PathBuf};

pub const SENTINEL_SECS: i64 = 946_684_800; // 2000-01-01

#[derive(Clone, Debug, PartialEq, Eq)]
pub enum Node {
    Dir,
    File {
        data: Vec<u8>,
        ino: u64,
        mtime: (i64, i64),
    },
    Symlink {
        target: String,
        ino: u64,
    },
    Other,
}

pub type Snap = BTreeMap<String, Node>;

pub fn wipe(root: &Path) {
    let _ = std::fs::remove_dir_all(root);
    std::fs::create_dir_all(root).expect("create scratch root");
}

fn subst(data: &[u8], root: &Path) -> Vec<u8> {
    let tok = b"@ROOT@";
    if data.len() < tok.len() || !data.windows(tok.len()).any(|w| w == tok) {
        return data.to_vec();
    }
    let r = root.display().to_string();
    let mut out = Vec::with_capacity(data.len() + r.len());
    let mut i = 0;
    while i < data.len() {
        if data[i..].starts_with(tok) {
            out.extend_from_slice(r.as_bytes());
            i += tok.len();
        } else {
            out.push(data[i]);
            i += 1;
        }
    }
    out
}

pub fn plant_entry(root: &Path, e: &Entry) {
    match e {
        Entry::Dir { path } => {
            let _ = std::fs::create_dir_all(root.join(osp(path)));
        }
        Entry::File { path, data } => {
            let p = root.join(osp(path));
            if let Some(par) = p.parent() {
                let _ = std::fs::create_dir_all(par);
            }
            // a symlink or directory already at the path stays what it is
            if p.is_dir() {
                return;
            }
            let _ = std::fs::write(&p, subst(&data.0, root));
            if data.0.starts_with(b"#!") {
                // scripts are planted executable
                use std::os::unix::fs::PermissionsExt;
                let _ = std::fs::set_permissions(&p, std::fs::Permissions::from_mode(0o755));
            }
        }
        Entry::Symlink { path, target } => {
            let p = root.join(osp(path));
            if let Some(par) = p.parent() {
                let _ = std::fs::create_dir_all(par);
            }
            let _ = std::fs::remove_file(&p);
            let t = String::from_utf8_lossy(&subst(target.as_bytes(), root)).to_string();
            let _ = std::os::unix::fs::symlink(t, &p);
        }
    }
}

/// Wipe the root and plant the project.
pub fn plant(root: &Path, p: &Project) {
    wipe(root);
    for e in &p.entries {
        plant_entry(root, e);
    }
}

pub fn snapshot(root: &Path) -> Snap {
    let mut out = Snap::new();
    fn walk(root: &Path, d: &Path, out: &mut Snap) {
        let rd = match std::fs::read_dir(d) {
            Ok(r) => r,
            Err(_) => return,
        };
        for e in rd.flatten() {
            let p = e.path();
            let rel = rel_name(p.strip_prefix(root).unwrap());
            let md = match std::fs::symlink_metadata(&p) {
                Ok(m) => m,
                Err(_) => continue,
            };
            let ft = md.file_type();
            if ft.is_symlink() {
                let target = std::fs::read_link(&p)
                    .map(|t| t.display().to_string())
                    .unwrap_or_default();
                out.insert(
                    rel,
                    Node::Symlink {
                        target,
                        ino: md.ino(),
                    },
                );
            } else if ft.is_dir() {
                out.insert(rel, Node::Dir);
                walk(root, &p, out);
            } else if ft.is_file() {
                let data = std::fs::read(&p).unwrap_or_default();
                out.insert(
                    rel,
                    Node::File {
                        data,
                        ino: md.ino(),
                        mtime: (md.mtime(), md.mtime_nsec()),
                    },
                );
            } else {
                out.insert(rel, Node::Other);
            }
        }
    }
    walk(root, root, &mut out);
    out
}

pub fn file_bytes<'a>(s: &'a Snap, path: &str) -> Option<&'a [u8]> {
    match s.get(path) {
        Some(Node::File { data, .. }) => Some(data),
        _ => None,
    }
}

/// Where a symbolic link at `path` leads (tree-relative), if it leads to a regular file of the tree.
pub fn follow(s: &Snap, path: &str) -> Option<String> {
    match s.get(path) {
        Some(Node::Symlink { target, .. }) if !target.starts_with('/') => {
            let r = join_rel(parent_rel(path), target)?;
            match s.get(&r) {
                Some(Node::File { .. }) => Some(r),
                _ => None,
            }
        }
        _ => None,
    }
}

/// Bytes found at `path`, through a symbolic link if there is one.
pub fn file_bytes_follow<'a>(s: &'a Snap, path: &str) -> Option<&'a [u8]> {
    match follow(s, path) {
        Some(r) => file_bytes(s, &r),
        None => file_bytes(s, path),
    }
}

/// Set every file mtime to the sentinel (directories too).
pub fn set_sentinel(root: &Path) {
    fn walk(d: &Path) {
        if let Ok(rd) = std::fs::read_dir(d) {
            for e in rd.flatten() {
                let p = e.path();
                let md = match std::fs::symlink_metadata(&p) {
                    Ok(m) => m,
                    Err(_) => continue,
                };
                if md.file_type().is_symlink() {
                    continue;
                }
                if md.is_dir() {
                    walk(&p);
                }
                set_mtime(&p, SENTINEL_SECS);
            }
        }
    }
    walk(root);
}

pub fn set_mtime(p: &Path, secs: i64) {
    use std::os::unix::ffi::OsStrExt;
    let c = std::ffi::CString::new(p.as_os_str().as_bytes()).unwrap();
    let times = [
        libc::timespec {
            tv_sec: secs,
            tv_nsec: 0,
        },
        libc::timespec {
            tv_sec: secs,
            tv_nsec: 0,
        },
    ];
    unsafe {
        libc::utimensat(libc::AT_FDCWD, c.as_ptr(), times.as_ptr(), 0);
    }
}

#[derive(Clone, Debug, PartialEq, Eq)]
pub enum Change {
    Created,
    Deleted,
    /// bytes differ
    Content,
    /// same bytes, different inode or mtime (rewritten / touched)
    Touched,
    KindChanged,
}

/// Differences between two snapshots; directories only by existence.
pub fn diff(a: &Snap, b: &Snap) -> Vec<(String, Change)> {
    let mut out = vec![];
    for (k, va) in a {
        match b.get(k) {
            None => out.push((k.clone(), Change::Deleted)),
            Some(vb) => match (va, vb) {
                (Node::Dir, Node::Dir) | (Node::Other, Node::Other) => {}
                (
                    Node::File {
                        data: d1,
                        ino: i1,
                        mtime: m1,
                    },
                    Node::File {
                        data: d2,
                        ino: i2,
                        mtime: m2,
                    },
                ) => {
                    if d1 != d2 {
                        out.push((k.clone(), Change::Content));
                    } else if i1 != i2 || m1 != m2 {
                        out.push((k.clone(), Change::Touched));
                    }
                }
                (
                    Node::Symlink {
                        target: t1,
                        ino: i1,
                    },
                    Node::Symlink {
                        target: t2,
                        ino: i2,
                    },
                ) => {
                    if t1 != t2 {
                        out.push((k.clone(), Change::Content));
                    } else if i1 != i2 {
                        out.push((k.clone(), Change::Touched));
                    }
                }
                _ => out.push((k.clone(), Change::KindChanged)),
            },
        }
    }
    for k in b.keys() {
        if !a.contains_key(k) {
            out.push((k.clone(), Change::Created));
        }
    }
    out.sort_by(|x, y| x.0.cmp(&y.0));
    out
}

/// Content-only hash of a snapshot (paths + bytes + link targets), for determinism witnesses.
/// Occurrences of the scratch root path inside file contents are redacted, so that the same case
/// run in another worker's scratch directory gives the same hash.
pub fn snap_hash(s: &Snap) -> u64 {
    let root = SCRATCH_ROOT.with(|r| r.borrow().clone());
    let mut h: u64 = 0xcbf2_9ce4_8422_2325;
    let mut feed = |b: &[u8]| {
        for x in b {
            h ^= *x as u64;
            h = h.wrapping_mul(0x0000_0100_0000_01b3);
        }
        h ^= 0xff;
        h = h.wrapping_mul(0x0000_0100_0000_01b3);
    };
    let redact = |data: &[u8]| -> Vec<u8> {
        if root.is_empty() || data.len() < root.len() {
            return data.to_vec();
        }
        let mut out = Vec::with_capacity(data.len());
        let mut i = 0;
        while i < data.len() {
            if data[i..].starts_with(&root) {
                out.extend_from_slice(b"@SCRATCH@");
                i += root.len();
            } else {
                out.push(data[i]);
                i += 1;
            }
        }
        out
    };
    for (k, v) in s {
        feed(k.as_bytes());
        match v {
            Node::Dir => feed(b"D"),
            Node::File { data, .. } => feed(&redact(data)),
            Node::Symlink { target, .. } => feed(&redact(target.as_bytes())),
            Node::Other => feed(b"O"),
        }
    }
    h
}

thread_local! {
    static SCRATCH_ROOT: std::cell::RefCell<Vec<u8>> = const { std::cell::RefCell::new(Vec::new()) };
}

/// Tell `snap_hash` which path prefix is specific to this worker (its scratch directory).
pub fn set_scratch_for_hash(p: &Path) {
    SCRATCH_ROOT.with(|r| *r.borrow_mut() = p.display().to_string().into_bytes());
}

/// Restore a tree to a snapshot's content (files, dirs, symlinks). Inodes and mtimes are new.
pub fn restore(root: &Path, s: &Snap) {
    wipe(root);
    for (k, v) in s {
        let p = root.join(osp(k));
        match v {
            Node::Dir => {
                let _ = std::fs::create_dir_all(&p);
            }
            Node::File { data, .. } => {
                if let Some(par) = p.parent() {
                    let _ = std::fs::create_dir_all(par);
                }
                let _ = std::fs::write(&p, data);
            }
            Node::Symlink { target, .. } => {
                if let Some(par) = p.parent() {
                    let _ = std::fs::create_dir_all(par);
                }
                let _ = std::os::unix::fs::symlink(target, &p);
            }
            Node::Other => {}
        }
    }
}

/// Lexically normalise a relative path (resolve `.` and `..`); None if it escapes the root.
pub fn norm_rel(p: &str) -> Option<String> {
    let mut parts: Vec<&str> = vec![];
    for c in p.split('/') {
        match c {
            "" | "." => {}
            ".." => {
                parts.pop()?;
            }
            x => parts.push(x),
        }
    }
    Some(parts.join("/"))
}

pub fn join_rel(dir: &str, p: &str) -> Option<String> {
    if dir.is_empty() {
        norm_rel(p)
    } else {
        norm_rel(&format!("{dir}/{p}"))
    }
}

pub fn parent_rel(p: &str) -> &str {
    match p.rsplit_once('/') {
        Some((d, _)) => d,
        None => "",
    }
}

pub fn to_project(s: &Snap) -> Project {
    let mut pr = Project::default();
    for (k, v) in s {
        match v {
            Node::Dir => pr.entries.push(Entry::Dir { path: k.clone() }),
            Node::File { data, .. } => pr.entries.push(Entry::File {
                path: k.clone(),
                data: B(data.clone()),
            }),
            Node::Symlink { target, .. } => pr.entries.push(Entry::Symlink {
                path: k.clone(),
                target: target.clone(),
            }),
            Node::Other => {}
        }
    }
    pr
}

pub fn abs(root: &Path, rel: &str) -> PathBuf {
    if rel.is_empty() {
        root.to_path_buf()
    } else {
        root.join(osp(rel))
    }
}

/// Project paths are Strings. A file-name byte that is not part of valid UTF-8 is spelled as the
/// private-use character U+F700 + byte (0x80..=0xFF), so that trees may contain names that are
/// not UTF-8 (legal on Unix) while every model keeps working on Strings. `osp` decodes a
/// tree-relative path for the operating system, `rel_name` encodes what the OS returns.
pub fn osp(rel: &str) -> PathBuf {
    use std::os::unix::ffi::OsStringExt;
    if !rel.chars().any(|c| ('\u{F780}'..='\u{F7FF}').contains(&c)) {
        return PathBuf::from(rel);
    }
    let mut b: Vec<u8> = Vec::with_capacity(rel.len());
    for c in rel.chars() {
        if ('\u{F780}'..='\u{F7FF}').contains(&c) {
            b.push((c as u32 - 0xF700) as u8);
        } else {
            let mut buf = [0u8; 4];
            b.extend_from_slice(c.encode_utf8(&mut buf).as_bytes());
        }
    }
    PathBuf::from(std::ffi::OsString::from_vec(b))
}

pub fn rel_name(p: &Path) -> String {
    use std::os::unix::ffi::OsStrExt;
    let mut bytes = p.as_os_str().as_bytes();
    let mut out = String::new();
    loop {
        match std::str::from_utf8(bytes) {
            Ok(s) => {
                out.push_str(s);
                return out;
            }
            Err(e) => {
                let (good, rest) = bytes.split_at(e.valid_up_to());
                out.push_str(std::str::from_utf8(good).unwrap_or(""));
                out.push(char::from_u32(0xF700 + rest[0] as u32).unwrap_or('?'));
                bytes = &rest[1..];
            }
        }
    }
}
