//! txtpp-sim: deterministic simulation of txtpp with fault injection.
#![allow(dead_code)]
mod ctl;
mod driver;
mod engines;
mod env;
mod gen;
mod minimise;
mod model;
mod names;
mod rng;
mod rspec;
mod spec;
mod stats;
mod trace;
mod tree;

fn usage() -> ! {
    eprintln!(
        "usage:\n  txtpp-sim check <property> <quick|thorough>\n  txtpp-sim replay <file>\n  txtpp-sim runcase <file>\n  txtpp-sim gencase <property> <index> [tier]\n  txtpp-sim selftest-determinism [runs-per-property]\n  txtpp-sim worker ... (internal)"
    );
    std::process::exit(2);
}

/// Standard input of this process becomes a pipe that never delivers anything and never ends
/// (the write end stays open, unused): what a terminal that nobody types on, or a pipe from a
/// live process, looks like to a child that inherits it. txtpp gives its commands /dev/null.
fn stdin_that_never_ends() {
    unsafe {
        let mut fds = [0i32; 2];
        if libc::pipe(fds.as_mut_ptr()) == 0 {
            libc::dup2(fds[0], 0);
            libc::close(fds[0]);
            // fds[1] is leaked on purpose
        }
    }
}

fn main() {
    let args: Vec<String> = std::env::args().collect();
    if args.len() < 2 {
        usage();
    }
    if matches!(args[1].as_str(), "worker" | "runcase" | "replay") {
        stdin_that_never_ends();
    }
    let code = match args[1].as_str() {
        "check" => {
            if args.len() < 4 {
                usage();
            }
            driver::check(&args[2], &args[3])
        }
        "worker" => driver::worker_main(&args[2..]),
        "runcase" => {
            if args.len() < 3 {
                usage();
            }
            driver::runcase_main(&args[2])
        }
        "replay" => {
            if args.len() < 3 {
                usage();
            }
            driver::replay_main(&args[2])
        }
        "gencase" => {
            if args.len() < 4 {
                usage();
            }
            driver::gencase_main(&args[2], &args[3], args.get(4).map(|s| s.as_str()))
        }
        "selftest-determinism" => driver::selftest_determinism(
            args.get(2).and_then(|s| s.parse().ok()).unwrap_or(300),
        ),
        _ => usage(),
    };
    std::process::exit(code);
}
