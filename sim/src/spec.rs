//! Directive syntax as documented in the README ("Syntax" section), and what the harness derives
//! from it about a generated project: dependency graph, generated paths, markers.
//! Shares no code with txtpp.
use crate::model::Project;
use crate::names;
use crate::tree::{join_rel, parent_rel};
use std::collections::{BTreeMap, BTreeSet};

pub const NAMES: [&str; 7] = ["", "include", "after", "run", "temp", "tag", "write"];

pub fn is_multi(name: &str) -> bool {
    matches!(name, "" | "run" | "temp" | "write")
}

#[derive(Clone, Debug, PartialEq)]
pub struct Dir {
    pub ws: String,
    pub prefix: String,
    pub name: String,
    pub args: Vec<String>,
    /// 0-based index of the first line
    pub line: usize,
}

#[derive(Clone, Debug, PartialEq)]
pub enum Elem {
    Text(String),
    D(Dir),
    /// a multi-line-capable directive without prefix (0-based line): an error in every mode but
    /// clean, which drops the line and carries on
    ErrLine(usize),
}

/// `BufRead::lines` semantics: split at `\n`, strip one trailing `\r`, no final empty line.
pub fn split_lines(text: &str) -> Vec<&str> {
    if text.is_empty() {
        return vec![];
    }
    let mut parts: Vec<&str> = text.split('\n').collect();
    if parts.last() == Some(&"") {
        parts.pop();
    }
    parts
        .into_iter()
        .map(|p| p.strip_suffix('\r').unwrap_or(p))
        .collect()
}

/// Line ending of a file = that of its first line; LF if there is none.
pub fn line_ending(text: &str) -> &'static str {
    match text.find('\n') {
        None => "\n",
        Some(i) => {
            if i > 0 && text.as_bytes()[i - 1] == b'\r' {
                "\r\n"
            } else {
                "\n"
            }
        }
    }
}

fn is_blank(c: char) -> bool {
    c == ' ' || c == '\t'
}

/// README: {WHITESPACES}{PREFIX1}TXTPP#{DIRECTIVE} {ARG1}
pub fn detect(line: &str, line_no: usize) -> Option<Dir> {
    let stripped = line.trim_start_matches(is_blank);
    let ws = &line[..line.len() - stripped.len()];
    let i = stripped.find("TXTPP#")?;
    let prefix = &stripped[..i];
    let rest = &stripped[i + 6..];
    let (name, arg) = match rest.split_once(' ') {
        Some((n, a)) => (n, a.trim_matches(is_blank)),
        None => (rest, ""),
    };
    if !NAMES.contains(&name) {
        return None;
    }
    Some(Dir {
        ws: ws.to_string(),
        prefix: prefix.to_string(),
        name: name.to_string(),
        args: vec![arg.to_string()],
        line: line_no,
    })
}

/// README "Subsequent lines": the argument carried by `line` if it continues `d`.
pub fn continuation(d: &Dir, line: &str) -> Option<String> {
    if !is_multi(&d.name) {
        return None;
    }
    let rest = line.strip_prefix(d.ws.as_str())?;
    let p = d.prefix.as_str();
    if rest == p.trim_end_matches(is_blank) {
        return Some(String::new());
    }
    if let Some(a) = rest.strip_prefix(p) {
        return Some(a.trim_end_matches(is_blank).to_string());
    }
    let spaces = " ".repeat(p.chars().count());
    if p.is_ascii() {
        if let Some(a) = rest.strip_prefix(spaces.as_str()) {
            return Some(a.trim_end_matches(is_blank).to_string());
        }
    }
    None
}

/// Group the lines of a source into ordinary lines and directives.
/// A prefix-less multi-line directive is an error: its 0-based line is returned as well, and the
/// grouping carries on behind it the way clean mode does.
pub fn parse(text: &str) -> (Vec<Elem>, Option<usize>) {
    let lines = split_lines(text);
    let mut out = vec![];
    let mut cur: Option<Dir> = None;
    let mut first_err: Option<usize> = None;
    let mut i = 0;
    while i < lines.len() {
        let line = lines[i];
        match cur.take() {
            None => {
                match detect(line, i) {
                    None => out.push(Elem::Text(line.to_string())),
                    Some(d) => {
                        if is_multi(&d.name) && d.prefix.is_empty() {
                            // an error in every mode but clean, which replaces the line by nothing
                            // and carries on; the elements after it matter for generated paths
                            if first_err.is_none() {
                                first_err = Some(i);
                            }
                            out.push(Elem::ErrLine(i));
                        } else {
                            cur = Some(d);
                        }
                    }
                }
                i += 1;
            }
            Some(mut d) => match continuation(&d, line) {
                Some(a) => {
                    d.args.push(a);
                    cur = Some(d);
                    i += 1;
                }
                None => {
                    out.push(Elem::D(d));
                    // the ending line is processed normally
                }
            },
        }
    }
    if let Some(d) = cur {
        out.push(Elem::D(d));
    }
    (out, first_err)
}

#[derive(Clone, Debug)]
pub struct DepRef {
    /// index into Analysis::sources
    pub target: usize,
    /// element index in the source where the dependency line is
    pub elem: usize,
    pub kind: String,
}

#[derive(Clone, Debug)]
pub struct SrcInfo {
    pub path: String,
    pub dir: String,
    pub out: String,
    pub text: Option<String>,
    pub elems: Vec<Elem>,
    pub parse_error: Option<usize>,
    pub deps: Vec<DepRef>,
    /// temp targets (normalised, relative to the tree root) in order of appearance
    pub temps: Vec<String>,
    /// marker ids with the element index of the run directive carrying them
    pub markers: Vec<(String, usize)>,
    /// probe ids (probe of dependency output) with element index
    pub probes: Vec<(String, usize)>,
}

impl SrcInfo {
    pub fn first_dep_elem(&self) -> Option<usize> {
        self.deps.iter().map(|d| d.elem).min()
    }
    pub fn generated(&self) -> Vec<String> {
        let mut v = vec![self.out.clone()];
        v.extend(self.temps.iter().cloned());
        v
    }
}

#[derive(Clone, Debug, Default)]
pub struct Analysis {
    pub sources: Vec<SrcInfo>,
    pub by_path: BTreeMap<String, usize>,
    pub by_out: BTreeMap<String, usize>,
}

/// Resolve an include/after/temp argument against the source directory (tree-relative result).
/// Absolute arguments are accepted when they start with the `@ROOT@` token.
pub fn resolve_arg(dir: &str, arg: &str) -> Option<String> {
    if let Some(r) = arg.strip_prefix("@ROOT@/") {
        return crate::tree::norm_rel(r);
    }
    if arg.starts_with('/') || arg.is_empty() {
        return None;
    }
    join_rel(dir, arg)
}

/// Like `resolve_arg`, following the symlinked directories planted in the project.
pub fn resolve_arg_in(p: &Project, dir: &str, arg: &str) -> Option<String> {
    if let Some(r) = arg.strip_prefix("@ROOT@/") {
        return p.resolve(r);
    }
    if arg.starts_with('/') || arg.is_empty() {
        return None;
    }
    if dir.is_empty() {
        p.resolve(arg)
    } else {
        p.resolve(&format!("{dir}/{arg}"))
    }
}

fn find_ids(cmd: &str, pat: &str) -> Vec<String> {
    // ids are [A-Za-z0-9_.]+ following `pat`
    let mut out = vec![];
    let mut rest = cmd;
    while let Some(i) = rest.find(pat) {
        let tail = &rest[i + pat.len()..];
        let id: String = tail
            .chars()
            .take_while(|c| c.is_ascii_alphanumeric() || *c == '_' || *c == '.')
            .collect();
        if !id.is_empty() {
            out.push(id);
        }
        rest = tail;
    }
    out
}

pub fn analyze(p: &Project) -> Analysis {
    let mut a = Analysis::default();
    for (path, data) in p.files() {
        let f = names::file_name(path);
        if let Some(out) = names::out_path(path) {
            if !names::is_source_name(f) {
                continue;
            }
            let text = std::str::from_utf8(&data.0).ok().map(|s| s.to_string());
            let (elems, perr) = match &text {
                Some(t) => parse(t),
                None => (vec![], None),
            };
            let idx = a.sources.len();
            a.by_path.insert(path.to_string(), idx);
            a.by_out.insert(out.clone(), idx);
            a.sources.push(SrcInfo {
                path: path.to_string(),
                dir: parent_rel(path).to_string(),
                out,
                text,
                elems,
                parse_error: perr,
                deps: vec![],
                temps: vec![],
                markers: vec![],
                probes: vec![],
            });
        }
    }
    let by_out = a.by_out.clone();
    for s in a.sources.iter_mut() {
        for (ei, e) in s.elems.iter().enumerate() {
            let d = match e {
                Elem::D(d) => d,
                _ => continue,
            };
            match d.name.as_str() {
                "include" | "after" => {
                    if let Some(t) = resolve_arg_in(p, &s.dir, &d.args[0]) {
                        if !names::is_source_name(names::file_name(&t)) {
                            if let Some(j) = by_out.get(&t) {
                                s.deps.push(DepRef {
                                    target: *j,
                                    elem: ei,
                                    kind: d.name.clone(),
                                });
                            }
                        }
                    }
                }
                "temp" => {
                    if let Some(t) = resolve_arg_in(p, &s.dir, &d.args[0]) {
                        if !names::is_source_name(names::file_name(&d.args[0])) && !t.is_empty() {
                            s.temps.push(t);
                        }
                    }
                }
                "run" => {
                    let cmd = d.args.join(" ");
                    for id in find_ids(&cmd, "printf 'm ") {
                        s.markers.push((id, ei));
                    }
                    for id in find_ids(&cmd, "/p.") {
                        s.probes.push((id, ei));
                    }
                }
                _ => {}
            }
        }
    }
    a
}

impl Analysis {
    pub fn n(&self) -> usize {
        self.sources.len()
    }
    pub fn edges(&self) -> BTreeSet<(usize, usize)> {
        let mut e = BTreeSet::new();
        for (i, s) in self.sources.iter().enumerate() {
            for d in &s.deps {
                e.insert((i, d.target));
            }
        }
        e
    }
    /// transitive closure of `roots` along dependency edges
    pub fn closure(&self, roots: &BTreeSet<usize>) -> BTreeSet<usize> {
        let mut seen = roots.clone();
        let mut stack: Vec<usize> = roots.iter().copied().collect();
        while let Some(i) = stack.pop() {
            for d in &self.sources[i].deps {
                if seen.insert(d.target) {
                    stack.push(d.target);
                }
            }
        }
        seen
    }
    /// sources that can reach a cycle (including self-loops)
    pub fn bad(&self) -> BTreeSet<usize> {
        let n = self.n();
        // on_cycle: i reaches i through >= 1 edge
        let mut reach = vec![vec![false; n]; n];
        for (i, j) in self.edges() {
            reach[i][j] = true;
        }
        for k in 0..n {
            for i in 0..n {
                if reach[i][k] {
                    for j in 0..n {
                        if reach[k][j] {
                            reach[i][j] = true;
                        }
                    }
                }
            }
        }
        let cyc: Vec<bool> = (0..n).map(|i| reach[i][i]).collect();
        (0..n)
            .filter(|i| cyc[*i] || (0..n).any(|j| reach[*i][j] && cyc[j]))
            .collect()
    }
    /// topological order (dependencies first) of `set`, ignoring members of `bad`
    pub fn topo(&self, set: &BTreeSet<usize>) -> Vec<usize> {
        let mut out = vec![];
        let mut state = vec![0u8; self.n()];
        fn visit(a: &Analysis, i: usize, set: &BTreeSet<usize>, state: &mut Vec<u8>, out: &mut Vec<usize>) {
            if state[i] != 0 {
                return;
            }
            state[i] = 1;
            for d in &a.sources[i].deps {
                if set.contains(&d.target) {
                    visit(a, d.target, set, state, out);
                }
            }
            state[i] = 2;
            out.push(i);
        }
        for i in set {
            visit(self, *i, set, &mut state, &mut out);
        }
        out
    }
    /// every generated path of every source in the tree
    pub fn gen_all(&self) -> BTreeSet<String> {
        self.sources.iter().flat_map(|s| s.generated()).collect()
    }
    /// canonical shape hash of the dependency graph (label-dependent: fine for coverage counts)
    pub fn shape_hash(&self) -> u64 {
        let mut v: Vec<u64> = vec![self.n() as u64];
        for (i, j) in self.edges() {
            v.push((i * 64 + j) as u64);
        }
        crate::rng::mix(&v)
    }
}

#[cfg(test)]
mod t {
    use super::*;
    #[test]
    fn detect_basic() {
        let d = detect("  // TXTPP#run echo 1  ", 0).unwrap();
        assert_eq!(d.ws, "  ");
        assert_eq!(d.prefix, "// ");
        assert_eq!(d.name, "run");
        assert_eq!(d.args, vec!["echo 1"]);
        assert!(detect("TXTPP#runx", 0).is_none());
        assert!(detect("TXTPP#run\tx", 0).is_none());
        assert!(detect("a TXTPP#foo TXTPP#run x", 0).is_none());
        assert_eq!(detect("TXTPP#", 0).unwrap().name, "");
    }
    #[test]
    fn parse_multi() {
        let (e, err) = parse("a\n-TXTPP#run x\n-y\n z\nb\n");
        assert!(err.is_none());
        assert_eq!(e.len(), 3);
        match &e[1] {
            Elem::D(d) => assert_eq!(d.args, vec!["x", "y", "z"]),
            _ => panic!(),
        }
    }
}


/// Line indices at which a new element may be inserted without splitting a directive and its
/// continuation lines (the first line of every element, and the end of the file).
pub fn element_starts(text: &str) -> Vec<usize> {
    let n = split_lines(text).len();
    let (elems, _) = parse(text);
    let mut v = vec![];
    let mut next_text_line = 0usize;
    for e in &elems {
        match e {
            Elem::Text(_) => {
                v.push(next_text_line);
                next_text_line += 1;
            }
            Elem::ErrLine(l) => {
                v.push(*l);
                next_text_line = *l + 1;
            }
            Elem::D(d) => {
                v.push(d.line);
                next_text_line = d.line + d.args.len();
            }
        }
    }
    v.push(n);
    v.sort();
    v.dedup();
    v.retain(|i| *i <= n);
    v
}
