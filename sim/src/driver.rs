//! Driver: worker processes, aggregation, minimisation, replay files, evidence.
use crate::engines::{self, Ctx, Tier, DEFAULT_SEED};
use crate::env::Env;
use crate::minimise;
use crate::model::*;
use crate::stats::{CaseOutcome, Stats};
use std::collections::BTreeMap;
use std::io::{BufRead, BufReader, Write};
use std::path::{Path, PathBuf};
use std::process::{Command, Stdio};
use std::sync::atomic::{AtomicBool, AtomicUsize, Ordering};
use std::sync::Arc;
use std::time::{Duration, Instant};

pub fn seed() -> u64 {
    std::env::var("VERIF_SEED")
        .ok()
        .and_then(|s| s.trim().parse::<u64>().ok())
        .unwrap_or(DEFAULT_SEED)
}

pub fn verif_dir() -> PathBuf {
    std::env::var("VERIF_DIR")
        .map(PathBuf::from)
        .unwrap_or_else(|_| PathBuf::from("/verif"))
}

pub fn scratch_base() -> PathBuf {
    let shm = Path::new("/dev/shm");
    let base = if shm.is_dir() {
        shm.to_path_buf()
    } else {
        std::env::var("TMPDIR")
            .map(PathBuf::from)
            .unwrap_or_else(|_| verif_dir().join("sim/target/scratch"))
    };
    // generated commands contain the scratch path unquoted: plain characters only
    let plain = |p: &Path| {
        p.display()
            .to_string()
            .chars()
            .all(|c| c.is_ascii_alphanumeric() || "/._-".contains(c))
    };
    let base = if plain(&base) {
        base
    } else {
        verif_dir().join("sim/target/scratch")
    };
    base.join(format!("txtpp-verif.{}", std::process::id()))
}

fn parse_tier(s: &str) -> Tier {
    if s == "thorough" {
        Tier::Thorough
    } else {
        Tier::Quick
    }
}

fn n_workers() -> usize {
    std::env::var("VERIF_WORKERS")
        .ok()
        .and_then(|s| s.parse().ok())
        .unwrap_or_else(|| {
            std::thread::available_parallelism()
                .map(|n| n.get())
                .unwrap_or(4)
                .min(16)
        })
}

// ------------------------------------------------------------------------------ worker

pub fn worker_main(args: &[String]) -> i32 {
    // prop tier seed k W N start scratch deadline_s
    if args.len() < 9 {
        eprintln!("worker: bad arguments");
        return 2;
    }
    let prop = args[0].clone();
    let tier = parse_tier(&args[1]);
    let seed: u64 = args[2].parse().unwrap();
    let k: u64 = args[3].parse().unwrap();
    let w: u64 = args[4].parse().unwrap();
    let n: u64 = args[5].parse().unwrap();
    let start: u64 = args[6].parse().unwrap();
    let scratch = PathBuf::from(&args[7]);
    let deadline_s: u64 = args[8].parse().unwrap();
    let t0 = Instant::now();
    crate::ctl::install_panic_hook();
    // swarm: odd workers run txtpp with a logger installed at trace level (a library caller may)
    if k % 2 == 1 {
        crate::ctl::install_discard_logger();
    }
    let env = Env::new(&scratch);
    let mut stats = Stats::default();
    if k % 2 == 1 {
        stats.count("config.logger_installed_at_trace");
    }
    let mut cache = engines::common::Cache::default();
    let per = engines::per_project(&prop);
    let out = std::io::stdout();
    let mut idx = start;
    let mut code = 0;
    while idx < n {
        if (idx / per) % w != k {
            idx += 1;
            continue;
        }
        if deadline_s > 0 && t0.elapsed().as_secs() >= deadline_s {
            break;
        }
        {
            let mut o = out.lock();
            let _ = writeln!(o, "@ {idx}");
            let _ = o.flush();
        }
        // (safety net: nothing of an earlier case is left parked)
        crate::ctl::hold_stragglers(false);
        crate::ctl::drain_stragglers();
        let case = engines::gen_case(&prop, seed, idx, tier);
        if let Some(c) = case.ops.iter().find_map(|o| match o {
            crate::model::Op::Run { cfg, .. } => Some(cfg.console),
            _ => None,
        }) {
            stats.count(match c {
                0 => "config.console.quiet",
                1 => "config.console.normal",
                2 => "config.console.verbose",
                3 => "config.console.normal_stderr_full",
                _ => "config.console.verbose_stderr_full",
            });
        }
        let mut ctx = Ctx {
            env: &env,
            stats: &mut stats,
            cache: &mut cache,
        };
        let mut oc = engines::run_case(&case, &mut ctx);
        let panics = crate::ctl::take_panics();
        engines::after_case(&case, &mut oc, &panics, &mut stats);
        stats.evaluations += 1;
        stats.digests.insert(idx, oc.digest);
        if let Some(h) = &oc.harness_error {
            let mut o = out.lock();
            let _ = writeln!(o, "H {idx} {}", h.replace('\n', " "));
            code = 2;
        }
        if oc.violation.is_some() {
            let mut o = out.lock();
            let rec = ViolationRec {
                index: idx,
                outcome: oc.clone(),
                case: case.clone(),
            };
            let _ = writeln!(o, "V {}", serde_json::to_string(&rec).unwrap());
            let _ = o.flush();
        }
        if crate::env::REF_HUNG.load(Ordering::SeqCst) {
            oc.poisoned = true;
        }
        if oc.poisoned {
            let mut o = out.lock();
            stats.counters.insert("cache.hits".into(), cache.hits);
            let _ = writeln!(o, "S {}", serde_json::to_string(&stats).unwrap());
            let _ = writeln!(o, "P {}", idx + 1);
            let _ = o.flush();
            // parked threads are abandoned with the process
            std::process::exit(3);
        }
        idx += 1;
    }
    stats.add("cache.rseq_hits", cache.hits);
    stats.add("cache.rseq_misses", cache.misses);
    {
        let mut o = out.lock();
        let _ = writeln!(o, "S {}", serde_json::to_string(&stats).unwrap());
        let _ = o.flush();
    }
    env.cleanup();
    code
}

#[derive(Clone, Debug, serde::Serialize, serde::Deserialize)]
pub struct ViolationRec {
    pub index: u64,
    pub outcome: CaseOutcome,
    pub case: Case,
}

struct WorkerResult {
    sig_counts: BTreeMap<String, u64>,
    stats: Stats,
    violations: Vec<ViolationRec>,
    harness: Vec<String>,
    aborts: Vec<(u64, String)>,
}

#[allow(clippy::too_many_arguments)]
fn drive_worker(
    prop: String,
    tier: &'static str,
    seed: u64,
    k: usize,
    w: usize,
    n: u64,
    scratch: PathBuf,
    deadline_s: u64,
    stop: Arc<AtomicBool>,
    nviol: Arc<AtomicUsize>,
) -> WorkerResult {
    let exe = std::env::current_exe().expect("current exe");
    let known_sigs: Vec<String> = load_findings()
        .into_iter()
        .filter(|f| f.status == "known")
        .map(|f| f.signature)
        .collect();
    let mut res = WorkerResult {
        sig_counts: BTreeMap::new(),
        stats: Stats::default(),
        violations: vec![],
        harness: vec![],
        aborts: vec![],
    };
    let mut start = 0u64;
    let t0 = Instant::now();
    let mut respawns = 0;
    loop {
        let remaining = if deadline_s > 0 {
            let el = t0.elapsed().as_secs();
            if el >= deadline_s {
                break;
            }
            deadline_s - el
        } else {
            0
        };
        let mut child = match Command::new(&exe)
            .arg("worker")
            .args([
                prop.as_str(),
                tier,
                &seed.to_string(),
                &k.to_string(),
                &w.to_string(),
                &n.to_string(),
                &start.to_string(),
                &scratch.display().to_string(),
                &remaining.to_string(),
            ])
            .stdin(Stdio::null())
            .stdout(Stdio::piped())
            .stderr(Stdio::null())
            .spawn()
        {
            Ok(c) => c,
            Err(e) => {
                res.harness.push(format!("cannot spawn worker: {e}"));
                break;
            }
        };
        let rd = BufReader::new(child.stdout.take().unwrap());
        let mut last_idx: Option<u64> = None;
        let mut got_stats = false;
        let mut next: Option<u64> = None;
        for line in rd.lines() {
            let line = match line {
                Ok(l) => l,
                Err(_) => break,
            };
            if stop.load(Ordering::Relaxed) {
                let _ = child.kill();
                break;
            }
            if let Some(r) = line.strip_prefix("@ ") {
                last_idx = r.parse().ok();
            } else if let Some(r) = line.strip_prefix("V ") {
                match serde_json::from_str::<ViolationRec>(r) {
                    Ok(v) => {
                        let sig = v
                            .outcome
                            .violation
                            .as_ref()
                            .map(signature)
                            .unwrap_or_default();
                        let n_same = res
                            .violations
                            .iter()
                            .filter(|x| x.outcome.violation.as_ref().map(signature).as_deref() == Some(sig.as_str()))
                            .count();
                        *res.sig_counts.entry(sig.clone()).or_insert(0) += 1;
                        let known = known_sigs.contains(&sig);
                        if n_same < 3 {
                            res.violations.push(v);
                        }
                        // known findings never end a batch early
                        if !known && nviol.fetch_add(1, Ordering::Relaxed) + 1 >= 24 {
                            stop.store(true, Ordering::Relaxed);
                        }
                    }
                    Err(e) => res.harness.push(format!("bad violation record: {e}")),
                }
            } else if let Some(r) = line.strip_prefix("S ") {
                match serde_json::from_str::<Stats>(r) {
                    Ok(s) => {
                        res.stats.merge(s);
                        got_stats = true;
                    }
                    Err(e) => res.harness.push(format!("bad stats record: {e}")),
                }
            } else if let Some(r) = line.strip_prefix("P ") {
                next = r.parse().ok();
            } else if let Some(r) = line.strip_prefix("H ") {
                res.harness.push(r.to_string());
            }
        }
        let status = child.wait();
        if stop.load(Ordering::Relaxed) {
            break;
        }
        if let Some(nx) = next {
            // worker replaced itself after a hung run
            start = nx;
            respawns += 1;
            if respawns > 2000 {
                res.harness.push("too many worker respawns".into());
                break;
            }
            continue;
        }
        if got_stats {
            break;
        }
        // died without saying goodbye: abort / signal inside the case it announced
        let st = status
            .map(|s| format!("{s}"))
            .unwrap_or_else(|e| format!("wait failed: {e}"));
        match last_idx {
            Some(i) => {
                res.aborts.push((i, st));
                start = i + 1;
                respawns += 1;
                if respawns > 200 {
                    res.harness.push("too many worker deaths".into());
                    break;
                }
            }
            None => {
                res.harness.push(format!("worker died before its first case: {st}"));
                break;
            }
        }
    }
    res
}

pub struct BatchResult {
    pub sig_counts: BTreeMap<String, u64>,
    pub stats: Stats,
    pub violations: Vec<ViolationRec>,
    pub harness: Vec<String>,
    pub aborts: Vec<(u64, String)>,
    pub wall_s: f64,
}

/// Remove scratch directories left behind by processes that no longer exist.
fn sweep_stale_scratch() {
    let base = scratch_base();
    let parent = match base.parent() {
        Some(p) => p.to_path_buf(),
        None => return,
    };
    if let Ok(rd) = std::fs::read_dir(&parent) {
        for e in rd.flatten() {
            let name = e.file_name().to_string_lossy().to_string();
            if let Some(pid) = name.strip_prefix("txtpp-verif.") {
                if let Ok(pid) = pid.parse::<u32>() {
                    if !Path::new(&format!("/proc/{pid}")).exists() {
                        let _ = std::fs::remove_dir_all(e.path());
                    }
                }
            }
        }
    }
}

pub fn run_batch(prop: &str, tier: Tier, seed: u64, n: u64, w: usize, deadline_s: u64) -> BatchResult {
    let t0 = Instant::now();
    sweep_stale_scratch();
    let base = scratch_base();
    let stop = Arc::new(AtomicBool::new(false));
    let nviol = Arc::new(AtomicUsize::new(0));
    let tier_s: &'static str = if tier == Tier::Thorough { "thorough" } else { "quick" };
    let mut hs = vec![];
    for k in 0..w {
        let (p, b, s, nv) = (prop.to_string(), base.join(format!("w{k}")), stop.clone(), nviol.clone());
        hs.push(std::thread::spawn(move || {
            drive_worker(p, tier_s, seed, k, w, n, b, deadline_s, s, nv)
        }));
    }
    let mut out = BatchResult {
        sig_counts: BTreeMap::new(),
        stats: Stats::default(),
        violations: vec![],
        harness: vec![],
        aborts: vec![],
        wall_s: 0.0,
    };
    for h in hs {
        if let Ok(r) = h.join() {
            out.stats.merge(r.stats);
            for (k, v) in r.sig_counts {
                *out.sig_counts.entry(k).or_insert(0) += v;
            }
            out.violations.extend(r.violations);
            out.harness.extend(r.harness);
            out.aborts.extend(r.aborts);
        }
    }
    let _ = std::fs::remove_dir_all(&base);
    out.violations.sort_by_key(|v| v.index);
    out.wall_s = t0.elapsed().as_secs_f64();
    out
}

// ------------------------------------------------------------------------------ known findings

#[derive(Clone, Debug, serde::Deserialize)]
pub struct Finding {
    pub id: String,
    pub property: String,
    pub status: String,
    #[serde(default)]
    pub signature: String,
    pub what: String,
    #[serde(default)]
    pub commit: String,
}

pub fn load_findings() -> Vec<Finding> {
    let p = verif_dir().join("known_findings.json");
    match std::fs::read_to_string(&p) {
        Ok(s) => serde_json::from_str::<Vec<Finding>>(&s).unwrap_or_default(),
        Err(_) => vec![],
    }
}

fn signature(v: &Violation) -> String {
    format!("{}/{}", v.property, v.class)
}

// ------------------------------------------------------------------------------ check

pub fn check(prop: &str, tier_s: &str) -> i32 {
    if !engines::CLAIMED.contains(&prop) {
        eprintln!("property {prop} is not claimed by this framework");
        return 2;
    }
    let tier = parse_tier(tier_s);
    let seed = seed();
    let n = std::env::var("VERIF_RUNS")
        .ok()
        .and_then(|s| s.parse().ok())
        .unwrap_or_else(|| engines::budget(prop, tier));
    let deadline_s: u64 = std::env::var("VERIF_DEADLINE_S")
        .ok()
        .and_then(|s| s.parse().ok())
        .unwrap_or(if tier == Tier::Thorough { 600 } else { 0 });
    let w = n_workers();
    println!("VERIF_SEED={seed} property={prop} tier={tier_s} cases<={n} workers={w}");
    let b = run_batch(prop, tier, seed, n, w, deadline_s);
    let mut exit = 0;
    let mut redo_compared = 0usize;
    if tier == Tier::Thorough {
        // determinism spot check: the first cases again, in other processes with another worker count
        let m = n.min(400);
        let again = run_batch(prop, tier, seed, m, 4, 0);
        for (i, d) in &again.stats.digests {
            if let Some(d0) = b.stats.digests.get(i) {
                redo_compared += 1;
                if d0 != d {
                    eprintln!("HARNESS-ERROR nondeterminism: case {i} gave another digest when re-executed");
                    exit = 2;
                }
            }
        }
        println!("determinism spot check: {redo_compared} cases re-executed with 4 workers");
    }
    for h in &b.harness {
        eprintln!("HARNESS-ERROR {h}");
        exit = 2;
    }
    let mut all_v: Vec<ViolationRec> = b.violations.clone();
    for (idx, st) in &b.aborts {
        // a worker process died inside a case: once more in a fresh process, to tell txtpp
        // bringing the process down from a kill that came from outside (OOM killer, operator)
        let case = engines::gen_case(prop, seed, *idx, tier);
        let died_again = {
            let dir = scratch_base().join("confirm");
            let _ = std::fs::create_dir_all(&dir);
            let f = dir.join(format!("case-{idx}.json"));
            let _ = std::fs::write(&f, serde_json::to_string(&case).unwrap_or_default());
            let exe = std::env::current_exe().expect("current exe");
            let mut c = Command::new(exe);
            c.arg("runcase").arg(&f).stdin(Stdio::null()).stdout(Stdio::null()).stderr(Stdio::null());
            let r = engines::common::status_with_timeout(&mut c, 300);
            let _ = std::fs::remove_dir_all(&dir);
            !matches!(r, Ok(Some(0)))
        };
        if !died_again {
            println!("note: a worker process died ({st}) while running case {idx}; the case runs to completion in a fresh process, so the death is not attributed to it");
            continue;
        }
        if prop == "C18" {
            let mut oc = CaseOutcome::default();
            oc.violate("C18", "process-abort", format!("worker process died ({st}) while running case {idx}"));
            oc.recorded = Some(case.clone());
            all_v.push(ViolationRec {
                index: *idx,
                outcome: oc,
                case,
            });
        } else {
            eprintln!("HARNESS-ERROR worker died ({st}) in case {idx}");
            exit = 2;
        }
    }
    // group by signature, minimise and report the first of each group
    let findings = load_findings();
    let mut by_sig: BTreeMap<String, Vec<ViolationRec>> = BTreeMap::new();
    for v in all_v {
        let sig = signature(v.outcome.violation.as_ref().unwrap());
        by_sig.entry(sig).or_default().push(v);
    }
    let replay_dir = verif_dir().join("replays");
    let mut n_viol = 0u64;
    let mut n_known = 0u64;
    let mut n_unrepro = 0u64;
    for (sig, vs) in &by_sig {
        if let Some(f) = findings
            .iter()
            .find(|f| f.status == "known" && f.property == prop && &f.signature == sig)
        {
            let n = b.sig_counts.get(sig).copied().unwrap_or(vs.len() as u64);
            println!("KNOWN-FINDING: property={} {} [{} occurrence(s), id {}]", prop, f.what, n, f.id);
            n_known += n;
            continue;
        }
        let n_occ = b.sig_counts.get(sig).copied().unwrap_or(vs.len() as u64);
        let _ = std::fs::create_dir_all(&replay_dir);
        // a violation counts only if its recording fails again in a fresh process
        let mut rep = None;
        for cand in vs.iter().take(3) {
            rep = minimise::minimise_and_confirm(cand, Duration::from_secs(90)).map(|r| (cand, r));
            if rep.is_some() {
                break;
            }
        }
        let (first, rep) = match rep {
            Some(x) => x,
            None => {
                println!(
                    "note: {n_occ} observation(s) of {sig} could not be reproduced in a fresh process and are not reported (first: case {}: {})",
                    vs[0].index,
                    vs[0].outcome.violation.as_ref().map(|v| v.message.replace('\n', " ")).unwrap_or_default()
                );
                n_unrepro += n_occ;
                continue;
            }
        };
        n_viol += n_occ;
        let path = replay_dir.join(format!("{prop}-{seed}-{}.json", first.index));
        let _ = std::fs::write(&path, serde_json::to_string_pretty(&rep).unwrap());
        println!(
            "VIOLATION property={prop} replay={} class={} occurrences={} :: {}",
            path.display(),
            rep.violation.class,
            n_occ,
            rep.violation.message.replace('\n', " ")
        );
        exit = if exit == 2 { 2 } else { 1 };
    }
    let _ = std::fs::remove_dir_all(scratch_base());
    write_evidence(prop, tier_s, seed, &b, n_viol, n_known, n_unrepro);
    report_probes(prop, &b.stats);
    println!(
        "property={prop} tier={tier_s} cases={} sim_runs={} steps={} interleavings={} wall={:.1}s violations={} known={} exit={exit}",
        b.stats.evaluations,
        b.stats.sim_runs,
        b.stats.steps,
        b.stats.interleavings.len(),
        b.wall_s,
        n_viol,
        n_known
    );
    exit
}

fn report_probes(prop: &str, s: &Stats) {
    for p in engines::expected_probes(prop) {
        if s.counters.get(*p).copied().unwrap_or(0) == 0 {
            println!("WARNING reach-probe={p} never fired in this batch");
        }
    }
}

fn write_evidence(prop: &str, tier: &str, seed: u64, b: &BatchResult, n_viol: u64, n_known: u64, n_unrepro: u64) {
    let s = &b.stats;
    let hours = (b.wall_s / 3600.0).max(1e-9);
    let mut samples = s.samples.clone();
    if samples.is_empty() {
        samples.push(serde_json::json!({"note": "no sample recorded"}));
    }
    let ev = serde_json::json!({
        "property_id": prop,
        "tier": tier,
        "seed": seed,
        "level": engines::level(prop),
        "coverage": {
            "evaluations": s.evaluations,
            "distinct_nontrivial": s.nontrivial.len(),
            "rule": engines::rule(prop),
            "samples": samples,
            "simulated_runs": s.sim_runs,
            "simulated_runs_per_hour": (s.sim_runs as f64 / hours) as u64,
            "cases_per_hour": (s.evaluations as f64 / hours) as u64,
            "scheduler_steps": s.steps,
            "simulated_time_ms": s.idle_ms,
            "distinct_interleavings": s.interleavings.len(),
            "distinct_interleavings_measure": "distinct hashes of (labelled dependency graph of the project, full action list of the run)",
            "distinct_coordinator_states": s.coord_states.len(),
            "distinct_coordinator_states_measure": "distinct hashes of (graph, done, total, in_drop, set of finished files, states of live tasks) observed at coordinator polls",
            "counters": s.counters,
            "components": engines::components(prop),
            "workers": n_workers(),
            "known_finding_occurrences": n_known,
            "unreproducible_observations": n_unrepro,
        },
        "assumptions": engines::assumptions(prop),
        "wall_s": b.wall_s,
        "violations": n_viol,
    });
    let dir = verif_dir().join("evidence");
    let _ = std::fs::create_dir_all(&dir);
    let _ = std::fs::write(
        dir.join(format!("{prop}.json")),
        serde_json::to_string_pretty(&ev).unwrap(),
    );
}

// ------------------------------------------------------------------------------ single cases

pub fn run_case_in_process(case: &Case) -> CaseOutcome {
    crate::ctl::install_panic_hook();
    let scratch = scratch_base().join("single");
    let env = Env::new(&scratch);
    let mut stats = Stats::default();
    let mut cache = engines::common::Cache::default();
    let mut ctx = Ctx {
        env: &env,
        stats: &mut stats,
        cache: &mut cache,
    };
    let mut oc = engines::run_case(case, &mut ctx);
    let panics = crate::ctl::take_panics();
    engines::after_case(case, &mut oc, &panics, &mut stats);
    if crate::env::REF_HUNG.load(Ordering::SeqCst) {
        oc.poisoned = true;
    }
    if !oc.poisoned {
        env.cleanup();
        let _ = std::fs::remove_dir_all(scratch_base());
    }
    oc
}

/// `runcase <file>`: file holds a Case (or a Replay); prints the outcome as JSON.
pub fn runcase_main(path: &str) -> i32 {
    let case = match load_case(path) {
        Ok(c) => c,
        Err(e) => {
            eprintln!("{e}");
            return 2;
        }
    };
    let oc = run_case_in_process(&case);
    println!("{}", serde_json::to_string(&oc).unwrap());
    let _ = std::io::stdout().flush();
    if oc.poisoned {
        let _ = std::fs::remove_dir_all(scratch_base());
        std::process::exit(0);
    }
    0
}

pub fn load_case(path: &str) -> Result<Case, String> {
    let s = std::fs::read_to_string(path).map_err(|e| format!("cannot read {path}: {e}"))?;
    if let Ok(r) = serde_json::from_str::<Replay>(&s) {
        return Ok(r.case);
    }
    serde_json::from_str::<Case>(&s).map_err(|e| format!("cannot parse {path}: {e}"))
}

pub fn replay_main(path: &str) -> i32 {
    let s = match std::fs::read_to_string(path) {
        Ok(s) => s,
        Err(e) => {
            eprintln!("cannot read {path}: {e}");
            return 2;
        }
    };
    let rep: Replay = match serde_json::from_str(&s) {
        Ok(r) => r,
        Err(e) => {
            eprintln!("cannot parse {path}: {e}");
            return 2;
        }
    };
    let oc = run_case_in_process(&rep.case);
    let code = if let Some(h) = &oc.harness_error {
        eprintln!("HARNESS-ERROR {h}");
        2
    } else {
        match &oc.violation {
            Some(v) => {
                println!(
                    "VIOLATION property={} replay={path} class={} :: {}",
                    v.property,
                    v.class,
                    v.message.replace('\n', " ")
                );
                if v.class != rep.violation.class {
                    println!("note: recorded class was {}", rep.violation.class);
                }
                1
            }
            None => {
                println!("replay of {path}: no violation (recorded: {})", rep.violation.class);
                0
            }
        }
    };
    if oc.poisoned {
        let _ = std::fs::remove_dir_all(scratch_base());
        std::process::exit(code);
    }
    code
}

pub fn gencase_main(prop: &str, index: &str, tier: Option<&str>) -> i32 {
    let idx: u64 = index.parse().unwrap_or(0);
    let case = engines::gen_case(prop, seed(), idx, parse_tier(tier.unwrap_or("quick")));
    println!("{}", serde_json::to_string_pretty(&case).unwrap());
    0
}

// ------------------------------------------------------------------------------ determinism

pub fn selftest_determinism(runs: u64) -> i32 {
    let seed = seed();
    let mut bad = 0;
    for prop in engines::CLAIMED {
        let a = run_batch(prop, Tier::Quick, seed, runs, 4, 0);
        let b = run_batch(prop, Tier::Quick, seed, runs, 16, 0);
        let mut diffs = 0;
        for (i, d) in &a.stats.digests {
            if b.stats.digests.get(i) != Some(d) {
                diffs += 1;
                if diffs <= 3 {
                    println!("DIVERGENCE property={prop} index={i}");
                }
            }
        }
        println!(
            "determinism property={prop} runs={} (4 workers) vs {} (16 workers): {} digest differences",
            a.stats.digests.len(),
            b.stats.digests.len(),
            diffs
        );
        if diffs > 0 || a.stats.digests.len() != b.stats.digests.len() {
            bad += 1;
        }
    }
    if bad > 0 {
        2
    } else {
        0
    }
}
