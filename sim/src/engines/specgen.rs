//! C01: refinement of simulated multi-file builds against the executable README (R-spec).
use super::common::*;
use super::history::err_brief;
use super::{rng_for, Ctx, Tier};
use crate::ctl::Verdict;
use crate::gen::{self, rel_path, Resolved, SrcB};
use crate::model::*;
use crate::rng::{mix, Rng};
use crate::rspec::{CmdSpec, Model, SpecErr};
use crate::spec::analyze;
use crate::stats::CaseOutcome;
use crate::tree;
use std::collections::{BTreeMap, BTreeSet};

const WS: [&str; 6] = ["", "", " ", "  ", "\t", "    "];
const PREFIX_ASCII: [&str; 8] = ["-", "// ", "# ", "/* ", "--", "x", "<!-- ", "//\t"];
const PREFIX_ANY: [&str; 4] = ["é ", "✓", "«", "ü-"];
const TEXTS: [&str; 22] = [
    "hello",
    "",
    "  indented",
    "TXTPP",
    "TXTPP#nope x",
    "a TXTPP#foo TXTPP#run x",
    "TXTPP#run\tx",
    "trailing  ",
    "TXTPP#includes f",
    "x TXTPP #run",
    "ünï",
    "-",
    "// comment",
    "T1",
    "[T1][T2]",
    "T2T1 ABA",
    "TXTPP#tagx",
    "  TXTPP#writex",
    "<<X>> and AB",
    "\ttabbed\ttext",
    "--",
    "#",
];
const TAGS: [&str; 6] = ["T1", "T2", "AB", "BA", "<<X>>", "Tag_é"];
const DIRS: [&str; 4] = ["", "sub", "lib/x", "sub/deep"];

struct Gen<'r> {
    rng: &'r mut Rng,
    cmds: BTreeMap<String, CmdSpec>,
    plains: Vec<(String, String)>,
}

struct FileState {
    b: SrcB,
    dir: String,
    idx: usize,
    listening: Option<String>,
    stored: Vec<String>,
    temp_ctr: usize,
    last_temp: Option<String>,
}

impl Gen<'_> {
    fn lit_cmds(&mut self) -> Vec<(String, String)> {
        vec![
            ("printf 'c1\\n'".into(), "c1\n".into()),
            ("printf 'c2'".into(), "c2".into()),
            ("printf 'a\\n\\nb'".into(), "a\n\nb".into()),
            ("printf ''".into(), "".into()),
            ("printf '%s' a b c".into(), "abc".into()),
            ("printf 'x\\r\\ny\\r\\n'".into(), "x\r\ny\r\n".into()),
            ("printf '  lead\\n'".into(), "  lead\n".into()),
            ("printf '\\n'".into(), "\n".into()),
            ("printf 'T1 inside\\n'".into(), "T1 inside\n".into()),
        ]
    }

    /// Lines of a run directive for `cmd`, possibly split over continuation lines.
    fn run_lines(&mut self, ws: &str, prefix: &str, cmd: &str) -> Vec<String> {
        let words: Vec<&str> = cmd.split(' ').collect();
        let sp = *self.rng.pick(&[" ", "  ", " \t"]);
        if words.len() > 2 && self.rng.chance(2, 5) {
            let k = self.rng.range(1, words.len() - 1);
            let first = words[..k].join(" ");
            let rest = words[k..].join(" ");
            let mut v = vec![format!("{ws}{prefix}TXTPP#run{sp}{first}")];
            v.push(self.cont(ws, prefix, &rest));
            v
        } else {
            let trail = *self.rng.pick(&["", "", " ", "  "]);
            vec![format!("{ws}{prefix}TXTPP#run{sp}{cmd}{trail}")]
        }
    }

    /// One continuation line in one of the three documented forms.
    fn cont(&mut self, ws: &str, prefix: &str, arg: &str) -> String {
        if arg.is_empty() && self.rng.chance(1, 2) {
            return format!("{ws}{}", prefix.trim_end_matches([' ', '\t']));
        }
        let spaces = self.rng.chance(1, 3) && !arg.starts_with(' ');
        let trail = *self.rng.pick(&["", "", " ", "\t"]);
        if spaces {
            format!("{ws}{}{arg}{trail}", " ".repeat(prefix.len()))
        } else {
            format!("{ws}{prefix}{arg}{trail}")
        }
    }

    fn text_line(&mut self, f: &mut FileState) {
        if !f.stored.is_empty() && self.rng.chance(3, 5) {
            // use some stored tags
            let k = self.rng.range(1, f.stored.len());
            let mut names = f.stored.clone();
            self.rng.shuffle(&mut names);
            let mut s = String::new();
            for t in names.iter().take(k) {
                s.push_str(*self.rng.pick(&["", "pre ", "x", "("]));
                s.push_str(t);
            }
            s.push_str(*self.rng.pick(&["", " post", "T", ")"]));
            f.b.push(s);
        } else {
            let t = (*self.rng.pick(&TEXTS)).to_string();
            f.b.push(t);
        }
        // the generator's view of the tag store follows the README: recompute lazily in `sync`
    }

    fn directive(&mut self, f: &mut FileState, deps: &[(String, String)]) {
        let ws = *self.rng.pick(&WS);
        let kind = *self.rng.pick(&[
            "include", "include", "run", "run", "write", "write", "empty", "temp", "tag", "incdep", "afterdep", "catplain",
            "incsrc", "tagchain", "inctemp",
        ]);
        if kind == "inctemp" {
            // include of a temp file this source wrote further up (whatever it holds by now)
            let t = match &f.last_temp {
                Some(t) => t.clone(),
                None => return,
            };
            if f.listening.is_some() {
                return;
            }
            let spelled = if self.rng.chance(1, 4) {
                format!("./{}", rel_path(&f.dir, &t))
            } else {
                rel_path(&f.dir, &t)
            };
            f.b.push(format!("{ws}TXTPP#include {spelled}"));
            return;
        }
        if kind == "tagchain" {
            // two tags alive at once, the text stored under one mentions the other, both used on
            // one line: substituted text is never scanned again, the leftmost occurrence wins
            if f.listening.is_some() || !self.rng.chance(1, 2) {
                return;
            }
            let cand: Vec<&str> = TAGS
                .iter()
                .copied()
                .filter(|t| f.stored.iter().all(|k| !(t.starts_with(k.as_str()) || k.starts_with(t))))
                .collect();
            if cand.len() < 2 {
                return;
            }
            let a = (*self.rng.pick(&cand)).to_string();
            let others: Vec<&str> = cand
                .iter()
                .copied()
                .filter(|t| !(t.starts_with(a.as_str()) || a.starts_with(t)))
                .collect();
            if others.is_empty() {
                return;
            }
            let b = (*self.rng.pick(&others)).to_string();
            let in_a = match self.rng.below(3) {
                0 => format!("see {b} there"),
                1 => b.clone(),
                _ => format!("{b}{b}"),
            };
            let in_b = match self.rng.below(3) {
                0 => format!("body of {a}"),
                1 => "plain".to_string(),
                _ => format!("{a}"),
            };
            f.b.push(format!("TXTPP#tag {a}"));
            f.b.group(vec![format!("-TXTPP#write {in_a}")]);
            f.b.push(format!("TXTPP#tag {b}"));
            f.b.group(vec![format!("-TXTPP#write {in_b}")]);
            // a suffix of one name may be a prefix of the other (AB, BA): the two uses overlap
            let overlap = (1..a.len().min(b.len()))
                .rev()
                .find(|k| a.is_char_boundary(a.len() - k) && b.is_char_boundary(*k) && a[a.len() - k..] == b[..*k]);
            let line = match self.rng.below(if overlap.is_some() { 6 } else { 4 }) {
                4 | 5 => format!("x{}{}y", a, &b[overlap.unwrap_or(0)..]),
                0 => format!("{a} {b}"),
                1 => format!("{b} {a}"),
                2 => format!("<{a}>({b})"),
                _ => format!("{a}{b}"),
            };
            f.b.push(line);
            resync(f);
            return;
        }
        let multi = matches!(kind, "run" | "write" | "empty" | "temp" | "catplain");
        let prefix: String = if multi {
            (*self.rng.pick(&PREFIX_ASCII)).to_string()
        } else {
            match self.rng.below(4) {
                0 => String::new(),
                1 => (*self.rng.pick(&PREFIX_ANY)).to_string(),
                _ => (*self.rng.pick(&PREFIX_ASCII)).to_string(),
            }
        };
        let sp = *self.rng.pick(&[" ", "  ", " \t"]);
        let mut has_output: Option<bool> = None; // Some(non-empty?)
        match kind {
            "include" => {
                let (p, c) = self.rng.pick(&self.plains).clone();
                let arg = if self.rng.chance(1, 5) {
                    format!("@ROOT@/{p}")
                } else {
                    rel_path(&f.dir, &p)
                };
                let trail = *self.rng.pick(&["", " ", "  "]);
                if f.listening.is_some() && c.is_empty() {
                    return;
                }
                f.b.push(format!("{ws}{prefix}TXTPP#include{sp}{arg}{trail}"));
                has_output = Some(!c.is_empty());
            }
            "incsrc" => {
                // including a .txtpp file itself yields its raw text
                if let Some((src, _)) = deps.first() {
                    if f.listening.is_some() {
                        return;
                    }
                    f.b.push(format!("{ws}{prefix}TXTPP#include {}", rel_path(&f.dir, src)));
                    has_output = Some(true);
                } else {
                    return;
                }
            }
            "incdep" | "afterdep" => {
                if deps.is_empty() {
                    return;
                }
                let (src, out) = self.rng.pick(deps).clone();
                let arg = if self.rng.chance(1, 6) {
                    format!("@ROOT@/{out}")
                } else {
                    rel_path(&f.dir, &out)
                };
                if kind == "incdep" {
                    f.b.push(format!("{ws}{prefix}TXTPP#include {arg}"));
                    has_output = Some(true);
                } else {
                    f.b.push(format!("{ws}{prefix}TXTPP#after {arg}"));
                    if self.rng.chance(2, 3) {
                        let cmd = format!("cat @ROOT@/{out}");
                        self.cmds.insert(cmd.clone(), CmdSpec::CatOut(src));
                        let pf = *self.rng.pick(&["+", "%% ", "=="]);
                        let ls = self.run_lines(ws, pf, &cmd);
                        f.b.group(ls);
                        has_output = Some(true);
                    }
                }
            }
            "catplain" => {
                let (p, c) = self.rng.pick(&self.plains).clone();
                if f.listening.is_some() && c.is_empty() {
                    return;
                }
                let cmd = format!("cat @ROOT@/{p}");
                self.cmds.insert(cmd.clone(), CmdSpec::CatPlain(p));
                let ls = self.run_lines(ws, &prefix, &cmd);
                f.b.group(ls);
                has_output = Some(!c.is_empty());
            }
            "run" => {
                let all = self.lit_cmds();
                let (cmd, out) = self.rng.pick(&all).clone();
                if f.listening.is_some() && out.is_empty() {
                    return;
                }
                self.cmds.insert(cmd.clone(), CmdSpec::Lit(out.clone()));
                let ls = self.run_lines(ws, &prefix, &cmd);
                f.b.group(ls);
                has_output = Some(!out.is_empty());
            }
            "write" => {
                let n = self.rng.range(1, 3);
                let mut args: Vec<String> = (0..n)
                    .map(|_| (*self.rng.pick(&["w1", "TXTPP#run echo", "", "  sp", "T1 T2", "-TXTPP#write x", "AB"])).to_string())
                    .collect();
                args[0] = args[0].trim().to_string();
                let joined = args.join("\n");
                if f.listening.is_some() && joined.is_empty() {
                    return;
                }
                let mut ls = vec![if args[0].is_empty() {
                    format!("{ws}{prefix}TXTPP#write")
                } else {
                    format!("{ws}{prefix}TXTPP#write{sp}{}", args[0])
                }];
                for a in &args[1..] {
                    let l = self.cont(ws, &prefix, a.trim_end());
                    ls.push(l);
                }
                f.b.group(ls);
                has_output = Some(!joined.is_empty());
            }
            "empty" => {
                let mut ls = vec![format!(
                    "{ws}{prefix}TXTPP#{}",
                    *self.rng.pick(&["", " */", " ignored", " -->"])
                )];
                for _ in 0..self.rng.below(3) {
                    let a = *self.rng.pick(&["more", "", "*/"]);
                    let l = self.cont(ws, &prefix, a);
                    ls.push(l);
                }
                f.b.group(ls);
            }
            "temp" => {
                // now and then the same target again (content of the later directive wins)
                let tpath = match (&f.last_temp, self.rng.chance(1, 4)) {
                    (Some(t), true) => t.clone(),
                    _ => {
                        f.temp_ctr += 1;
                        let tdir = if self.rng.chance(1, 4) {
                            (*self.rng.pick(&DIRS)).to_string()
                        } else {
                            f.dir.clone()
                        };
                        if tdir.is_empty() {
                            format!("t{}_{}.tmp", f.idx, f.temp_ctr)
                        } else {
                            format!("{tdir}/t{}_{}.tmp", f.idx, f.temp_ctr)
                        }
                    }
                };
                f.last_temp = Some(tpath.clone());
                // the same file may be spelled with a leading ./
                let spelled = if self.rng.chance(1, 4) {
                    format!("./{}", rel_path(&f.dir, &tpath))
                } else {
                    rel_path(&f.dir, &tpath)
                };
                let mut ls = vec![format!("{ws}{prefix}TXTPP#temp{sp}{spelled}")];
                for _ in 0..self.rng.below(4) {
                    let a = *self.rng.pick(&["body", "", "  x", "TXTPP#run no", "ü", "T1"]);
                    let l = self.cont(ws, &prefix, a);
                    ls.push(l);
                }
                f.b.group(ls);
            }
            _ => {
                // tag
                if f.listening.is_some() {
                    return;
                }
                let cand: Vec<&str> = TAGS
                    .iter()
                    .copied()
                    .filter(|t| f.stored.iter().all(|k| !(t.starts_with(k.as_str()) || k.starts_with(t))))
                    .collect();
                if cand.is_empty() {
                    return;
                }
                let t = (*self.rng.pick(&cand)).to_string();
                f.b.push(format!("{ws}{prefix}TXTPP#tag{sp}{t}"));
                f.listening = Some(t);
                return;
            }
        }
        if let (Some(t), Some(nonempty)) = (f.listening.clone(), has_output) {
            if nonempty {
                f.stored.push(t);
                f.listening = None;
            }
        }
    }
}

/// Recompute which tags are still stored after the text lines written so far: the generator
/// only needs an approximation to keep files well-formed; the model is the judge.
fn resync(f: &mut FileState) {
    let text = f.b.lines.join("\n");
    let (elems, _) = crate::spec::parse(&text);
    // replay tag lifecycle syntactically: a stored tag disappears at the first text line containing it
    let mut stored: Vec<String> = vec![];
    let mut listening: Option<String> = None;
    for e in elems {
        match e {
            crate::spec::Elem::Text(l) => {
                let mut hits: Vec<(usize, usize)> = stored
                    .iter()
                    .enumerate()
                    .filter_map(|(k, t)| l.find(t.as_str()).map(|p| (p, k)))
                    .collect();
                hits.sort();
                let mut last = 0;
                let mut used = vec![];
                for (p, k) in hits {
                    if p < last {
                        continue;
                    }
                    last = p + stored[k].len();
                    used.push(k);
                }
                used.sort();
                for k in used.into_iter().rev() {
                    stored.remove(k);
                }
            }
            crate::spec::Elem::D(d) => match d.name.as_str() {
                "tag" => listening = Some(d.args[0].clone()),
                "include" | "run" | "write" => {
                    if let Some(t) = listening.take() {
                        stored.push(t);
                    }
                }
                _ => {}
            },
            _ => {}
        }
    }
    f.stored = stored;
    f.listening = listening;
}

pub fn gen(prop: &str, seed: u64, index: u64, _tier: Tier) -> Case {
    let per = super::per_project(prop);
    let pi = index / per;
    let mut prng = rng_for(seed, prop, pi, "project");
    let mut p = Project::default();
    for d in DIRS {
        p.add_dir(d);
    }
    let plains: Vec<(String, String)> = vec![
        ("p1.txt".into(), "plain one\n".into()),
        ("sub/p2.txt".into(), "no newline at end".into()),
        ("lib/x/p3.txt".into(), "l1\r\nl2\r\n\r\n".into()),
        ("p4.txt".into(), "".into()),
        ("sub/p5.txt".into(), "\n".into()),
        ("p6.txt".into(), "  ind\n\nafter blank\n".into()),
        ("lib/x/p7.txt".into(), "T1 and TXTPP#run inside\nlast".into()),
    ];
    for (path, c) in &plains {
        p.add_file(path, B::s(c));
    }
    let n = gen::pick_n(&mut prng, 5);
    let mut paths = vec![];
    for i in 0..n {
        let d = DIRS[prng.below(DIRS.len())];
        let name = gen::source_name(&mut prng, i, true);
        // a name that begins with a dot is a name like any other (`.f1.txt.txtpp` builds `.f1.txt`)
        let name = if prng.chance(1, 12) { format!(".{name}") } else { name };
        paths.push(if d.is_empty() { name } else { format!("{d}/{name}") });
    }
    let outs: Vec<String> = paths.iter().map(|s| crate::names::out_path(s).unwrap()).collect();
    // who is a dependency target (must end with an ordinary line)
    let mut dep_edges: Vec<Vec<usize>> = vec![vec![]; n];
    for i in 0..n {
        for j in (i + 1)..n {
            if prng.chance(1, 3) {
                dep_edges[i].push(j);
            }
        }
    }
    let is_target: Vec<bool> = (0..n).map(|j| dep_edges.iter().any(|v| v.contains(&j))).collect();
    let mut g = Gen {
        rng: &mut prng,
        cmds: BTreeMap::new(),
        plains: plains.clone(),
    };
    let err_file = if g.rng.chance(1, 7) { Some(g.rng.below(n)) } else { None };
    let mut err_kind = String::new();
    for i in (0..n).rev() {
        let dir = tree::parent_rel(&paths[i]).to_string();
        let mut f = FileState {
            b: SrcB::new(if g.rng.chance(1, 3) { "\r\n" } else { "\n" }, !g.rng.chance(1, 4), g.rng.chance(1, 5)),
            dir,
            idx: i,
            listening: None,
            stored: vec![],
            temp_ctr: 0,
            last_temp: None,
        };
        let deps: Vec<(String, String)> = dep_edges[i].iter().map(|j| (paths[*j].clone(), outs[*j].clone())).collect();
        if g.rng.chance(1, 25) {
            // a first line longer than any I/O buffer (the line ending is taken from it)
            let n = *g.rng.pick(&[8190usize, 8191, 8192, 9000, 70000]);
            f.b.push("L".repeat(n));
        }
        let n_elems = g.rng.range(0, 10);
        // make sure every declared dependency is really used at least once
        let mut must: Vec<(String, String)> = deps.clone();
        for _ in 0..n_elems {
            if g.rng.chance(9, 20) {
                g.directive(&mut f, &deps);
            } else {
                g.text_line(&mut f);
            }
            resync(&mut f);
            if !must.is_empty() && g.rng.chance(1, 3) {
                let (_, out) = must.pop().unwrap();
                if f.listening.is_none() {
                    let kw = if g.rng.chance(1, 3) { "after" } else { "include" };
                    f.b.push(format!("TXTPP#{kw} {}", rel_path(&f.dir, &out)));
                    resync(&mut f);
                }
            }
        }
        for (_, out) in must {
            if f.listening.is_none() {
                f.b.push(format!("TXTPP#include {}", rel_path(&f.dir, &out)));
                resync(&mut f);
            }
        }
        // close tags
        let mut guard = 0;
        while (f.listening.is_some() || !f.stored.is_empty()) && guard < 12 {
            guard += 1;
            if f.listening.is_some() {
                g.cmds.insert("printf 'c1\\n'".into(), CmdSpec::Lit("c1\n".into()));
                f.b.group(vec!["+TXTPP#run printf 'c1\\n'".into()]);
            } else {
                let t = f.stored.last().unwrap().clone();
                f.b.push(format!("use {t} end"));
            }
            resync(&mut f);
        }
        if Some(i) == err_file {
            let kinds = [
                "include-missing",
                "command-fails",
                "tag-while-listening",
                "tag-same-name",
                "tag-prefix",
                "unused-listening",
                "unused-stored",
                "prefixless-run",
                "prefixless-empty",
                "prefixless-write",
                "temp-txtpp",
                "temp-txtpp-mid",
                "include-directory",
                "command-killed",
            ];
            let k = *g.rng.pick(&kinds);
            err_kind = k.to_string();
            g.cmds.insert("exit 3".into(), CmdSpec::Fail(3));
            g.cmds.insert("printf partial; kill -9 $$".into(), CmdSpec::Fail(137));
            g.cmds.insert("printf 'c1\\n'".into(), CmdSpec::Lit("c1\n".into()));
            let bad: Vec<Vec<String>> = match k {
                "include-missing" => vec![vec!["TXTPP#include no_such_file.txt".into()]],
                "command-fails" => vec![vec!["-TXTPP#run exit 3".into()]],
                "command-killed" => vec![vec!["-TXTPP#run printf partial; kill -9 $$".into()]],
                "tag-while-listening" => vec![vec!["TXTPP#tag ZA".into()], vec!["TXTPP#tag ZB".into()]],
                "tag-same-name" => vec![
                    vec!["TXTPP#tag ZA".into()],
                    vec!["+TXTPP#run printf 'c1\\n'".into()],
                    vec!["TXTPP#tag ZA".into()],
                ],
                "tag-prefix" => vec![
                    vec!["TXTPP#tag ZAB".into()],
                    vec!["+TXTPP#run printf 'c1\\n'".into()],
                    vec!["TXTPP#tag ZA".into()],
                ],
                "unused-listening" => vec![vec!["TXTPP#tag ZNEVER".into()]],
                "unused-stored" => vec![vec!["TXTPP#tag ZNEVER".into()], vec!["+TXTPP#run printf 'c1\\n'".into()]],
                "prefixless-run" => vec![vec!["TXTPP#run printf 'c1\\n'".into()]],
                "prefixless-empty" => vec![vec!["  TXTPP#".into()]],
                "prefixless-write" => vec![vec!["TXTPP#write x".into()]],
                "include-directory" => vec![vec!["TXTPP#include @ROOT@/lib/x".into()]],
                "temp-txtpp" => vec![vec!["-TXTPP#temp bad.txtpp".into(), "-body".into()]],
                _ => vec![vec!["-TXTPP#temp bad.txtpp.txt".into(), "-body".into()]],
            };
            f.b.push("~".into());
            for gl in bad {
                f.b.group(gl);
            }
            f.b.push("~ after".into());
        }
        if is_target[i] || g.rng.chance(2, 3) {
            f.b.push(format!("end of f{i}"));
        }
        if g.rng.chance(1, 4) {
            // let lines collide with open directives the way the README describes (the model
            // follows the continuation rule; a run command changed this way leaves the domain)
            f.b.lines.retain(|l| l != "~");
        }
        let text = f.b.render(g.rng);
        p.add_file(&paths[i], B(text.into_bytes()));
    }
    let cmds = g.cmds;
    let a = analyze(&p);
    let mut crng = rng_for(seed, prop, pi, "config");
    let (inputs, recursive) = gen::gen_inputs(&mut crng, &a, false);
    let mode = if crng.chance(1, 4) { ModeS::Needed } else { ModeS::Build };
    let mut cfg = RunCfg::simple(mode, "", inputs, *crng.pick(&gen::KS));
    cfg.recursive = recursive;
    cfg.trailing_newline = !crng.chance(1, 3);
    let mut srng = rng_for(seed, prop, index, "sched");
    let ss = srng.next();
    let sched = gen::pick_sched(&mut srng, ss);
    let mut params = BTreeMap::new();
    params.insert("commands".to_string(), serde_json::to_string(&cmds).unwrap());
    params.insert("error_kind".to_string(), err_kind);
    Case {
        property: prop.to_string(),
        variant: String::new(),
        seed,
        index,
        project: p,
        ops: vec![Op::Run {
            cfg,
            sched,
            label: "build".into(),
        }],
        params,
    }
}

fn strip_eols(s: &[u8]) -> &[u8] {
    let mut e = s.len();
    while e > 0 && (s[e - 1] == b'\n' || s[e - 1] == b'\r') {
        e -= 1;
    }
    &s[..e]
}

pub fn run(case: &Case, ctx: &mut Ctx) -> CaseOutcome {
    let mut out = CaseOutcome::default();
    let (cfg, sched) = match first_run(case) {
        Some(x) => x,
        None => return out,
    };
    let a = analyze(&case.project);
    let named = match gen::r_inputs(&case.project, &a, &cfg.base, &cfg.inputs, cfg.recursive) {
        Resolved::Sources(s) => s,
        Resolved::Error(_) => {
            ctx.stats.count("skipped.unresolvable_inputs");
            return out;
        }
    };
    let req = a.closure(&named);
    if !a.bad().is_disjoint(&req) {
        ctx.stats.count("skipped.cyclic");
        return out;
    }
    let cmds: BTreeMap<String, CmdSpec> = case
        .params
        .get("commands")
        .and_then(|j| serde_json::from_str(j).ok())
        .unwrap_or_default();
    // the model first: if it cannot decide, the case says nothing
    let mut model = Model::new(&case.project, &a, &cmds, cfg.trailing_newline);
    let mut expect: BTreeMap<usize, Result<crate::rspec::FileOut, String>> = BTreeMap::new();
    for i in &req {
        match model.process(*i) {
            Ok(f) => {
                expect.insert(*i, Ok(f));
            }
            Err(SpecErr::Error(e)) => {
                expect.insert(*i, Err(e));
            }
            Err(SpecErr::Unknown(why)) => {
                ctx.stats.count("skipped.outside_domain");
                let key = why.split(' ').take(3).collect::<Vec<_>>().join("_");
                ctx.stats.count(&format!("skipped.why.{key}"));
                return out;
            }
        }
    }
    let spec_ok = expect.values().all(|r| r.is_ok());
    let env = ctx.env;
    tree::plant(&env.root, &case.project);
    env.clear_run_vlog();
    let sim = env.run(cfg, sched, false);
    ctx.stats.sim(a.shape_hash(), sched, &sim);
    let snap = tree::snapshot(&env.root);
    out.digest = mix(&[sim.log_hash(), tree::snap_hash(&snap), sim.verdict.is_ok() as u64]);
    out.poisoned = sim.poisoned;
    if let Some(d) = &sim.diverged {
        out.harness_error = Some(format!("replay divergence: {d}"));
        return out;
    }
    let mut rec = case.clone();
    record_script(&mut rec, 0, &sim.actions);
    out.recorded = Some(rec);
    out.trace = tail(&sim.log, 60);
    if sim.poisoned {
        return out;
    }
    let multi = req.len() >= 2;
    ctx.stats.count(if multi { "c01.multi_file_runs" } else { "c01.single_file_runs" });
    ctx.stats.count(if spec_ok { "c01.spec_ok" } else { "c01.spec_err" });
    let ek = case.params.get("error_kind").cloned().unwrap_or_default();
    if !ek.is_empty() && !spec_ok {
        ctx.stats.count(&format!("c01.error_kind.{ek}"));
    }
    let n_dirs: usize = req
        .iter()
        .map(|i| a.sources[*i].elems.iter().filter(|e| matches!(e, crate::spec::Elem::D(_))).count())
        .sum();
    if n_dirs >= 2 {
        ctx.stats
            .nontrivial
            .insert(mix(&[project_hash(&case.project), cfg_hash(cfg), if multi { sim.actions_hash() } else { 0 }]));
    }
    for i in &req {
        for e in &a.sources[*i].elems {
            if let crate::spec::Elem::D(d) = e {
                ctx.stats.count(&format!("c01.directive.{}", if d.name.is_empty() { "empty" } else { &d.name }));
                if d.args.len() > 1 {
                    ctx.stats.count("c01.multi_line_directives");
                }
            }
        }
    }
    match (&sim.verdict, spec_ok) {
        (Verdict::Ok, false) => {
            let (i, e) = expect.iter().find_map(|(i, r)| r.as_ref().err().map(|e| (*i, e.clone()))).unwrap();
            out.violate(
                "C01",
                "missed-error",
                format!("the build succeeded although the documented semantics prescribe an error in {}: {e}", a.sources[i].path),
            );
        }
        (Verdict::Err(e), true) => {
            out.violate(
                "C01",
                "unexpected-failure",
                format!("the documented semantics prescribe no error, but the build failed: {}", err_brief(e)),
            );
        }
        (Verdict::Ok, true) => {
            let root_s = env.root.display().to_string();
            for (i, r) in &expect {
                // the model works on the text as generated; the planted text has the root path
                // where the generator wrote the @ROOT@ token
                let mut f = r.as_ref().unwrap().clone();
                f.out = f.out.replace("@ROOT@", &root_s);
                for t in f.temps.iter_mut() {
                    t.1 = t.1.replace("@ROOT@", &root_s);
                }
                let s = &a.sources[*i];
                let got = match tree::file_bytes(&snap, &s.out) {
                    Some(g) => g,
                    None => {
                        out.violate("C01", "output-missing", format!("{} was not written", s.out));
                        break;
                    }
                };
                let same = if f.exact {
                    got == f.out.as_bytes()
                } else {
                    strip_eols(got) == strip_eols(f.out.as_bytes())
                };
                if !same {
                    out.violate(
                        "C01",
                        "output-differs-from-documented-semantics",
                        format!(
                            "{} (exact comparison: {}): got {:?}, the README semantics give {:?}",
                            s.out,
                            f.exact,
                            String::from_utf8_lossy(got),
                            f.out
                        ),
                    );
                    break;
                }
                for (tp, tc) in &f.temps {
                    let gt = tree::file_bytes(&snap, tp);
                    if gt != Some(tc.as_bytes()) {
                        out.violate(
                            "C01",
                            "temp-file-differs-from-documented-semantics",
                            format!(
                                "temp file {tp} of {}: got {:?}, the README semantics give {:?}",
                                s.path,
                                gt.map(|b| String::from_utf8_lossy(b).to_string()),
                                tc
                            ),
                        );
                    }
                }
                ctx.stats.count(if f.exact { "c01.files_compared_exactly" } else { "c01.files_compared_modulo_trailing_eol" });
            }
        }
        _ => {}
    }
    if ctx.stats.samples.len() < 3 && case.index % 89 == 0 {
        ctx.stats.samples.push(serde_json::json!({
            "index": case.index,
            "sources": a.sources.iter().map(|s| serde_json::json!({"path": s.path, "text": s.text.as_ref().map(|t| t.chars().take(1500).collect::<String>())})).collect::<Vec<_>>(),
            "inputs": cfg.inputs, "mode": cfg.mode.name(), "k": cfg.k, "trailing_newline": cfg.trailing_newline,
            "spec_verdict": if spec_ok { "ok" } else { "error" },
            "verdict": sim.verdict.short(),
        }));
    }
    let _ = BTreeSet::<usize>::new();
    out
}
