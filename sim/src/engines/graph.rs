//! Graph engine: one simulated build of a generated multi-file project under a seeded schedule.
//! Serves C02 (fresh complete dependencies), C03 (termination, exactly once), C05 (cycles).
use super::common::*;
use super::{rng_for, Ctx, Tier};
use crate::gen::{self, GraphOpts, Resolved};
use crate::model::*;
use crate::rng::{fnv, mix};
use crate::spec::{analyze, Analysis};
use crate::stats::CaseOutcome;
use crate::tree;
use std::collections::BTreeSet;
use std::sync::OnceLock;

/// Flip to true once the defects in generated-path handling of non-UTF-8 leftovers are repaired
/// (DESIGN.md section 7, D2/D3): until then invalid UTF-8 pre-states are C08's business only.
pub const DIRTY_INVALID_UTF8: bool = true;
/// Dotted stems with the `.txtpp.ext` shape (D5) are C11's business until repaired.
pub const DOTTED_STEMS: bool = true;

fn dags4() -> &'static Vec<(usize, Vec<(usize, usize)>)> {
    static D: OnceLock<Vec<(usize, Vec<(usize, usize)>)>> = OnceLock::new();
    D.get_or_init(|| {
        let mut out = vec![];
        for n in 1..=4usize {
            let pairs: Vec<(usize, usize)> = (0..n)
                .flat_map(|i| (0..n).filter(move |j| *j != i).map(move |j| (i, j)))
                .collect();
            for mask in 0u32..(1 << pairs.len()) {
                let e: Vec<(usize, usize)> = pairs
                    .iter()
                    .enumerate()
                    .filter(|(k, _)| mask & (1 << k) != 0)
                    .map(|(_, p)| *p)
                    .collect();
                if acyclic(n, &e) {
                    out.push((n, e));
                }
            }
        }
        out
    })
}

fn acyclic(n: usize, e: &[(usize, usize)]) -> bool {
    let mut indeg = vec![0; n];
    for (_, b) in e {
        indeg[*b] += 1;
    }
    let mut q: Vec<usize> = (0..n).filter(|i| indeg[*i] == 0).collect();
    let mut seen = 0;
    while let Some(i) = q.pop() {
        seen += 1;
        for (a, b) in e {
            if *a == i {
                indeg[*b] -= 1;
                if indeg[*b] == 0 {
                    q.push(*b);
                }
            }
        }
    }
    seen == n
}

/// number of labelled digraphs with self-loops on 1..=4 nodes
const DIGRAPHS4: u64 = 2 + 16 + 512 + 65536;

fn digraph4(mut k: u64) -> (usize, Vec<(usize, usize)>) {
    for n in 1..=4usize {
        let cnt = 1u64 << (n * n);
        if k < cnt {
            let mut e = vec![];
            for i in 0..n {
                for j in 0..n {
                    if k & (1 << (i * n + j)) != 0 {
                        e.push((i, j));
                    }
                }
            }
            return (n, e);
        }
        k -= cnt;
    }
    (1, vec![])
}

pub fn gen(prop: &str, seed: u64, index: u64, tier: Tier) -> Case {
    let per = super::per_project(prop);
    let pi = index / per;
    let mut rng = rng_for(seed, prop, pi, "project");
    let mut o = GraphOpts {
        dotted: DOTTED_STEMS,
        ..Default::default()
    };
    if tier == Tier::Thorough {
        // larger graphs beyond the swept ones
        o.max_n = 10;
    }
    let cyclic = match prop {
        "C05" => rng.chance(4, 5),
        "C03" => rng.chance(1, 4),
        _ => false,
    };
    o.cyclic = cyclic;
    // stratified sweep over small graphs first, then sampling
    let (n, edges, swept): (usize, BTreeSet<(usize, usize)>, bool) = if prop == "C05"
        && tier == Tier::Thorough
        && pi < DIGRAPHS4
    {
        let (n, e) = digraph4(pi);
        (n, e.into_iter().collect(), true)
    } else if prop != "C05" && (pi as usize) < dags4().len() {
        let (n, e) = &dags4()[pi as usize];
        (*n, e.iter().copied().collect(), true)
    } else {
        let n = gen::pick_n(&mut rng, o.max_n);
        let e = gen::gen_edges(&mut rng, n, cyclic);
        (n, e, false)
    };
    if prop == "C03" {
        // now and then more results than any queue holds
        o.wide = true;
        // and a directory that disappears while the run is under way
        o.scratch_dir = true;
    }
    // a symlinked directory: the same file under two spellings that only the OS can equate
    o.symlinks = true;
    let mut project = gen::gen_graph_project(&mut rng, &o, n, &edges);
    if prop == "C03" && !swept && rng.chance(1, 10) {
        // a failing file: the run must still terminate, whatever is in flight when it fails
        let a0 = analyze(&project);
        if a0.n() > 0 {
            let s = a0.sources[rng.below(a0.n())].path.clone();
            gen::inject_error(&mut rng, &mut project, &s);
        }
    }
    let a = analyze(&project);
    let mut crng = rng_for(seed, prop, pi, "config");
    let link_name: Option<String> = project.entries.iter().find_map(|e| match e {
        Entry::Symlink { path, target } if path.starts_with("lnk") && !path.contains('/') && target == "sub" => Some(path.clone()),
        _ => None,
    });
    let has_link = link_name.is_some();
    let (mut inputs, mut recursive) = gen::gen_inputs_l(&mut crng, &a, prop == "C03", link_name.as_deref());
    // directories that hold links leading out of them: sources reached only through a link
    let link_dirs: Vec<String> = project
        .entries
        .iter()
        .filter_map(|e| match e {
            Entry::Symlink { path, .. } if Some(path) != link_name.as_ref() => Some(tree::parent_rel(path).to_string()),
            _ => None,
        })
        .collect();
    let mut link_dirs = link_dirs;
    if has_link {
        // the link itself as the input: what it leads to is what must be scanned
        link_dirs.push(link_name.clone().unwrap_or_default());
    }
    if !link_dirs.is_empty() && crng.chance(1, 3) {
        inputs = vec![crng.pick(&link_dirs).clone()];
        recursive = !crng.chance(1, 4);
    }
    // state kept from an earlier run in the same process must not matter: now and then the same
    // inputs are first run on a variant of the tree in which some sources do not exist yet (a
    // hand-written file lies where their output will be)
    let mut warm: Vec<String> = vec![];
    if !swept && a.n() > 1 && crng.chance(1, 6) {
        for s in &a.sources {
            if crng.chance(1, 3) {
                warm.push(s.path.clone());
            }
        }
        if warm.is_empty() && has_link {
            // nothing hidden: the warm-up differs only in where `lnk` points
            warm.push("-".into());
        }
    }
    // C05: the cycle is closed by an edit after a successful build, and the run that must report
    // it is a verify (the stored outputs still match: `after` prints nothing)
    let mut closing: Option<(String, String)> = None;
    if prop == "C05" && !swept && !cyclic && a.n() >= 2 && crng.chance(1, 8) {
        // no cycle at all: a dependency's text is edited after the build, the verify that follows
        // must fail for that reason and not with a circular-dependency report
        let with_dependers: Vec<usize> = a.edges().iter().map(|(_, j)| *j).collect();
        if !with_dependers.is_empty() {
            let j = *crng.pick(&with_dependers);
            closing = Some((a.sources[j].path.clone(), "edited after the build".to_string()));
        }
    }
    if closing.is_none() && prop == "C05" && !swept && !cyclic && a.n() >= 2 && crng.chance(1, 3) {
        // an edge j -> i where i already reaches j closes a cycle; a self-loop otherwise
        let edges_now = a.edges();
        let mut cands: Vec<(usize, usize)> = edges_now.iter().map(|(i, j)| (*j, *i)).collect();
        for i in 0..a.n() {
            cands.push((i, i));
        }
        let (from, to) = *crng.pick(&cands);
        let sp = a.sources[from].path.clone();
        let line = format!("TXTPP#after {}", gen::rel_path(&a.sources[from].dir, &a.sources[to].out));
        closing = Some((sp, line));
    }
    let mode = if crng.chance(1, 4) {
        ModeS::Needed
    } else {
        ModeS::Build
    };
    let mut cfg = RunCfg::simple(mode, "", inputs, *crng.pick(&gen::KS));
    cfg.recursive = recursive;
    cfg.trailing_newline = !crng.chance(1, 6);
    let mut srng = rng_for(seed, prop, index, "sched");
    let sseed = srng.next();
    let sched = gen::pick_sched(&mut srng, sseed);
    let mut params = std::collections::BTreeMap::new();
    params.insert("dirty_seed".to_string(), format!("{}", crng.next()));
    params.insert("swept".to_string(), format!("{swept}"));
    if !warm.is_empty() {
        params.insert("warmup_without".to_string(), serde_json::to_string(&warm).unwrap());
    }
    let mut project = project;
    let mut cfg = cfg;
    if let Some((sp, line)) = closing {
        if let Some(d) = project.file(&sp).cloned() {
            let t = d.lossy();
            let eol = crate::spec::line_ending(&t);
            let mut t2 = t.clone();
            if !t2.is_empty() && !t2.ends_with('\n') {
                t2.push_str(eol);
            }
            // a guard line first: the new line must not continue a directive above it
            t2.push_str(&format!("~{eol}{line}{eol}"));
            // the build that precedes the edit sees the file without that last line
            project.set_file(&sp, B(t2.into_bytes()));
            params.insert("closing_edit_path".to_string(), sp);
            params.insert("closing_edit_line".to_string(), line.clone());
            cfg.mode = ModeS::Verify;
        }
    }
    Case {
        property: prop.to_string(),
        variant: String::new(),
        seed,
        index,
        project,
        ops: vec![Op::Run {
            cfg,
            sched,
            label: "build".into(),
        }],
        params,
    }
}

pub fn required(a: &Analysis, project: &Project, cfg: &RunCfg) -> Result<BTreeSet<usize>, String> {
    match gen::r_inputs(project, a, &cfg.base, &cfg.inputs, cfg.recursive) {
        Resolved::Sources(s) => Ok(a.closure(&s)),
        Resolved::Error(e) => Err(e),
    }
}

pub fn run(case: &Case, ctx: &mut Ctx) -> CaseOutcome {
    let mut out = CaseOutcome::default();
    let prop = case.property.as_str();
    let (cfg, sched) = match first_run(case) {
        Some(x) => x,
        None => {
            out.harness_error = Some("graph case without a run".into());
            return out;
        }
    };
    let a = analyze(&case.project);
    let req = match required(&a, &case.project, cfg) {
        Ok(r) => r,
        Err(_) => {
            // inputs do not resolve (can happen after minimisation): nothing to check
            ctx.stats.count("skipped.unresolvable_inputs");
            return out;
        }
    };
    let bad: BTreeSet<usize> = a.bad().intersection(&req).copied().collect();
    let good: BTreeSet<usize> = req.difference(&bad).copied().collect();
    let env = ctx.env;

    // reference: one file at a time in dependency order, pristine tree
    let r = rseq_cached(env, ctx.cache, &case.project, &a, &good, cfg);

    if let Some(f) = &r.hung {
        // the per-file pass itself never returns, with no coordinator or pool involved
        if prop == "C03" {
            out.violate("C03", "hang", format!("processing {f} alone (one file, calling thread) did not return within 60 s"));
        }
        out.poisoned = true;
        out.recorded = Some(case.clone());
        return out;
    }
    // warm-up: the same invocation on a tree in which some sources do not exist yet
    if let Some(hide) = case.params.get("warmup_without").and_then(|s| serde_json::from_str::<Vec<String>>(s).ok()) {
        let mut v = case.project.clone();
        for h in &hide {
            if let Some(i) = a.by_path.get(h) {
                v.remove(h);
                v.add_file(&a.sources[*i].out, B::s("written by hand before the source existed\n"));
            }
        }
        // a directory link points somewhere else during the warm-up
        for e in v.entries.iter_mut() {
            if let Entry::Symlink { path, target } = e {
                if path.starts_with("lnk") && !path.contains('/') && target == "sub" {
                    *target = "lib".into();
                }
            }
        }
        // the earlier tree has earlier text, and in a third of the warm-ups one source that fails:
        // a run that fails may leave tasks behind (never on a tree whose Drop joins the pool);
        // they are carried into the run under test (ctl.rs, stragglers)
        let mut wrng = crate::rng::Rng::new(mix(&[case.seed, case.index, 4711]));
        let srcs: Vec<String> = analyze(&v).sources.iter().map(|s| s.path.clone()).collect();
        for sp in &srcs {
            if let Some(d) = v.file(sp).cloned() {
                let t = d.lossy().replace(" begins", " began in an earlier version");
                v.set_file(sp, B(t.into_bytes()));
            }
        }
        if !srcs.is_empty() && wrng.chance(1, 3) {
            let sp = wrng.pick(&srcs).clone();
            gen::inject_error(&mut wrng, &mut v, &sp);
        }
        tree::plant(&env.root, &v);
        env.clear_run_vlog();
        let mut ws = sched.clone();
        ws.script = None;
        ws.strict = false;
        crate::ctl::hold_stragglers(true);
        let warm = env.run(cfg, &ws, false);
        crate::ctl::hold_stragglers(false);
        ctx.stats.count("config.warm_up_run_on_earlier_tree");
        if !warm.verdict.is_ok() {
            ctx.stats.count("config.warm_up_run_failed");
        }
        if warm.poisoned {
            // a hang in the warm-up is a hang of txtpp all the same; C03 reports it below through
            // the main run's detectors only, so just replace the worker here
            crate::ctl::drain_stragglers();
            out.poisoned = true;
            out.recorded = Some(case.clone());
            return out;
        }
    }
    // the tree the simulated run sees: sources + dirty generated paths
    tree::plant(&env.root, &case.project);
    let dirty_seed: u64 = case
        .params
        .get("dirty_seed")
        .and_then(|s| s.parse().ok())
        .unwrap_or(0);
    let mut drng = crate::rng::Rng::new(dirty_seed);
    let per_mille = if prop == "C02" { 1000 } else { 500 };
    let mut n_dirty = 0;
    let closing_before: Option<(String, String)> = match (case.params.get("closing_edit_path"), case.params.get("closing_edit_line")) {
        (Some(path), Some(line)) => case.project.file(path).and_then(|d| {
            let t = d.lossy();
            // the last occurrence of the line, with its line ending, taken out again
            t.rfind(line.as_str()).map(|pos| {
                let end = t[pos..].find('\n').map(|k| pos + k + 1).unwrap_or(t.len());
                (path.clone(), format!("{}{}", &t[..pos], &t[end..]))
            })
        }),
        _ => None,
    };
    let mut prebuild_ok = true;
    if let Some((path, before)) = &closing_before {
        // history: the project without the closing line is built (everything is up to date),
        // then the line is added, then the run under test (a verify) starts
        let _ = std::fs::write(env.root.join(tree::osp(path)), before.as_bytes());
        env.clear_run_vlog();
        let mut bcfg = cfg.clone();
        bcfg.mode = ModeS::Build;
        let mut bs = sched.clone();
        bs.script = None;
        bs.strict = false;
        let pre = env.run(&bcfg, &bs, false);
        if pre.poisoned {
            out.poisoned = true;
            out.recorded = Some(case.clone());
            return out;
        }
        ctx.stats.count(if pre.verdict.is_ok() { "c05.closing_edit.prebuild_ok" } else { "c05.closing_edit.prebuild_failed" });
        prebuild_ok = pre.verdict.is_ok();
        if let Some(d) = case.project.file(path) {
            let _ = std::fs::write(env.root.join(tree::osp(path)), &d.0);
        }
    } else {
        n_dirty = plant_dirty(env, &mut drng, &a, &r, DIRTY_INVALID_UTF8, per_mille);
    }
    if !prebuild_ok {
        // nothing is up to date: the verify fails for other reasons, nothing to learn
        out.recorded = Some(case.clone());
        return out;
    }
    env.clear_run_vlog();
    let sim = env.run(cfg, sched, false);
    ctx.stats.sim(a.shape_hash(), sched, &sim);
    ctx.stats.add("prestate.stale_paths_planted", n_dirty as u64);
    let snap = tree::snapshot(&env.root);
    out.digest = mix(&[sim.log_hash(), tree::snap_hash(&snap), sim.verdict.is_ok() as u64]);
    out.poisoned = sim.poisoned;
    if let Some(d) = &sim.diverged {
        out.harness_error = Some(format!("replay divergence: {d}"));
        return out;
    }
    let mut rec = case.clone();
    record_script(&mut rec, 0, &sim.actions);
    out.recorded = Some(rec);
    out.trace = sim.log.clone();

    let ref_ok = r.all_ok(&good);
    if !ref_ok {
        ctx.stats.count("reference.some_file_failed");
    }
    let case_hash = mix(&[
        project_hash(&case.project),
        cfg_hash(cfg),
        sim.actions_hash(),
    ]);
    let n_edges_req = a
        .edges()
        .iter()
        .filter(|(i, _)| req.contains(i))
        .count();
    let markers = env.markers();
    let probes = env.probes();

    // protocol invariants over the event log (no outputs involved)
    let issues = crate::trace::check(&sim.log);
    ctx.stats.count("trace.logs_checked");
    for is in &issues {
        match (prop, is.class) {
            ("C02", "final-pass-before-dependency-finished") => {
                out.violate("C02", "final-pass-before-dependency-finished", is.message.clone())
            }
            ("C03", "final-pass-spawned-twice") | ("C03", "first-pass-spawned-twice") => {
                out.violate("C03", is.class, is.message.clone())
            }
            _ => {}
        }
    }
    match prop {
        "C02" => {
            if sim.verdict.is_ok() {
                ctx.stats.count("c02.successful_runs");
                if n_edges_req > 0 {
                    ctx.stats.nontrivial.insert(case_hash);
                }
                for i in &req {
                    if let Some(m) = compare_generated(&a, *i, &snap, &r) {
                        out.violate("C02", "output-differs-from-sequential", m);
                        break;
                    }
                }
            }
            // whatever the verdict: a command after a dependency line saw the final X
            let mut n_probe = 0;
            for (id, lines) in &probes {
                let want = match r.probes.get(id).and_then(|v| v.first()) {
                    Some(w) => w,
                    None => continue,
                };
                for l in lines {
                    n_probe += 1;
                    if l != want {
                        out.violate(
                            "C02",
                            "command-saw-incomplete-dependency",
                            format!(
                                "probe {id}: a command placed after its dependency line saw cksum {l:?}, the finished dependency output has {want:?} ({} record(s) in this run)",
                                lines.len()
                            ),
                        );
                    }
                }
            }
            ctx.stats.add("c02.probe_records_checked", n_probe);
        }
        "C03" => {
            if let Some(h) = &sim.hang {
                out.violate("C03", "hang", h.clone());
            }
            let file_tasks = sim.n_tasks;
            let mut asserted = 0;
            // markers: exactly once on Ok, at most once otherwise
            for i in &req {
                let s = &a.sources[*i];
                let first_dep = s.first_dep_elem();
                for (id, elem) in &s.markers {
                    let assertable = match first_dep {
                        None => true,
                        Some(fd) => *elem > fd,
                    };
                    if !assertable {
                        continue;
                    }
                    // only markers the reference executed are expected to run
                    let want = r.markers.get(id).copied().unwrap_or(0);
                    let got = markers.get(id).copied().unwrap_or(0);
                    asserted += 1;
                    if got > 1 {
                        out.violate(
                            "C03",
                            "command-executed-more-than-once",
                            format!("marker {id} in {} executed {got} times in one build", s.path),
                        );
                    } else if sim.verdict.is_ok() && want == 1 && got != 1 {
                        out.violate(
                            "C03",
                            "command-not-executed",
                            format!("marker {id} in {} executed {got} times in a successful build", s.path),
                        );
                    }
                }
            }
            if file_tasks >= 2 && asserted > 0 {
                ctx.stats.nontrivial.insert(case_hash);
            }
            ctx.stats.add("c03.markers_asserted", asserted);
            if sim.verdict.is_ok() {
                ctx.stats.count("c03.successful_runs");
                for i in &good {
                    if let Some(m) = compare_generated(&a, *i, &snap, &r) {
                        out.violate("C03", "required-file-not-completed", m);
                        break;
                    }
                }
            }
        }
        "C05" => {
            if !bad.is_empty() {
                ctx.stats.nontrivial.insert(case_hash);
                ctx.stats.count("c05.runs_with_reachable_cycle");
                if let Some(h) = &sim.hang {
                    out.violate("C05", "hang-on-cycle", h.clone());
                } else if sim.verdict.is_ok() {
                    out.violate(
                        "C05",
                        "success-despite-cycle",
                        format!(
                            "run reported success although {:?} can reach a dependency cycle",
                            bad.iter().map(|i| a.sources[*i].path.clone()).collect::<Vec<_>>()
                        ),
                    );
                } else if sim.verdict.is_err() && ref_ok && cfg.mode != ModeS::Verify {
                    for i in &good {
                        if let Some(m) = compare_generated(&a, *i, &snap, &r) {
                            out.violate("C05", "acyclic-part-not-built", m);
                            break;
                        }
                    }
                    if !good.is_empty() {
                        ctx.stats.count("c05.bystanders_checked");
                    }
                }
                let self_loops = a.edges().iter().filter(|(i, j)| i == j && req.contains(i)).count();
                if self_loops > 0 {
                    ctx.stats.count("probe.cycle_len_1");
                }
                if a.edges()
                    .iter()
                    .any(|(i, j)| i != j && a.edges().contains(&(*j, *i)) && req.contains(i))
                {
                    ctx.stats.count("probe.cycle_len_2");
                }
            } else {
                ctx.stats.count("c05.runs_without_cycle");
                if let crate::ctl::Verdict::Err(e) = &sim.verdict {
                    if e.contains("Circular dependencies") {
                        out.violate(
                            "C05",
                            "false-circular-dependency",
                            "an acyclic project got a circular-dependency failure".to_string(),
                        );
                    }
                }
            }
        }
        _ => {}
    }
    if ctx.stats.samples.len() < 3 && (case.index % 97 == 0) {
        ctx.stats.samples.push(serde_json::json!({
            "index": case.index,
            "sources": a.sources.iter().map(|s| s.path.clone()).collect::<Vec<_>>(),
            "edges": a.edges().iter().map(|(i,j)| format!("{}->{}", a.sources[*i].path, a.sources[*j].path)).collect::<Vec<_>>(),
            "inputs": cfg.inputs,
            "mode": cfg.mode.name(),
            "k": cfg.k,
            "policy": format!("{:?}", sched.policy),
            "fine": sched.fine,
            "actions": sim.actions,
            "verdict": sim.verdict.short(),
        }));
    }
    let _ = fnv;
    out
}
