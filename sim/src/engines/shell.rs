//! Shell engine (C17): the contract of run commands, with every knob of the environment drawn
//! per run (process cwd, base directory, nesting depth, shell, entry point).
use super::common::*;
use super::history::{err_brief, exec};
use super::{rng_for, Ctx, Tier};
use crate::ctl::Verdict;
use crate::gen;
use crate::model::*;
use crate::rng::{mix, Rng};
use crate::stats::CaseOutcome;
use crate::tree::{self, Node};
use std::collections::BTreeMap;

const DEPTH_DIRS: [&str; 4] = ["", "d1", "d1/d2", "d1/d2/d3"];

fn join(a: &str, b: &str) -> String {
    match (a.is_empty(), b.is_empty()) {
        (true, _) => b.to_string(),
        (_, true) => a.to_string(),
        _ => format!("{a}/{b}"),
    }
}

/// A random command text for the argv variant, split into directive lines.
/// Returns (source lines, expected command string as the shell must receive it).
fn gen_command(rng: &mut Rng, prefix: &str, ws: &str) -> (Vec<String>, String) {
    let words = ["echo", "a", "b  c", "-n", "$X", "'q u'", "\"dq\"", "%s", "\\n", "x=1;", "|", "tr", "&&", "ü", "#c"];
    let n_lines = rng.range(1, 4);
    let mut lines = vec![];
    let mut args: Vec<String> = vec![];
    for l in 0..n_lines {
        let nw = rng.range(if l == 0 { 1 } else { 0 }, 3);
        let mut arg = String::new();
        for w in 0..nw {
            if w > 0 {
                arg.push_str(*rng.pick(&[" ", "  ", " \t "]));
            }
            arg.push_str(*rng.pick(&words));
        }
        let lead = if l == 0 {
            *rng.pick(&["", " ", "\t "])
        } else {
            *rng.pick(&["", "", "  ", "\t"])
        };
        let trail = *rng.pick(&["", "", " ", " \t"]);
        if l == 0 {
            lines.push(format!("{ws}{prefix}TXTPP#run {lead}{arg}{trail}"));
            args.push(arg.clone());
        } else if arg.is_empty() && lead.is_empty() && rng.chance(1, 2) {
            // bare prefix without trailing whitespace = empty argument
            lines.push(format!("{ws}{}", prefix.trim_end()));
            args.push(String::new());
        } else {
            let form_spaces = rng.chance(1, 3);
            let pf = if form_spaces { " ".repeat(prefix.len()) } else { prefix.to_string() };
            lines.push(format!("{ws}{pf}{lead}{arg}{trail}"));
            let full = format!("{lead}{arg}");
            args.push(full.trim_end_matches([' ', '\t']).to_string());
        }
    }
    (lines, args.join(" "))
}

pub fn gen(prop: &str, seed: u64, index: u64, _tier: Tier) -> Case {
    let mut rng = rng_for(seed, prop, index, "case");
    let variant = *rng.pick(&["env", "env", "env", "argv", "argv", "status", "cli-env", "cli-guard", "stdout"]);
    let mut p = Project::default();
    // the base directory sits below the tree root so that an ancestor and an unrelated cwd exist
    let base = "w/base".to_string();
    p.add_dir(&base);
    p.add_dir("elsewhere/deep");
    for d in DEPTH_DIRS {
        p.add_dir(&join(&base, d));
    }
    let mut params = BTreeMap::new();
    let n_src = rng.range(1, 3);
    let mut expect_err = false;
    let mut src_paths: Vec<String> = vec![];
    for i in 0..n_src {
        let depth = rng.below(4);
        let dir = join(&base, DEPTH_DIRS[depth]);
        let name = match rng.below(3) {
            0 => format!("s{i}.txt.txtpp"),
            1 => format!("s{i}.txtpp.txt"),
            _ => format!("s{i}.txtpp"),
        };
        let path = join(&dir, &name);
        src_paths.push(path.clone());
        let mut lines: Vec<String> = vec!["begin".into()];
        match variant {
            "stdout" if rng.chance(1, 12) => {
                // a background job that outlives the shell still writes to the pipe: the directive
                // result is everything written to stdout until the pipe is closed
                let text = format!("early {i}\nlate {i}\n");
                lines.push(format!("-TXTPP#run echo 'early {i}'; (sleep 0.6; echo 'late {i}') &"));
                params.insert(format!("stdout_text.{path}"), text);
            }
            "stdout" if rng.chance(1, 3) => {
                // a command above the dependency line that prints the dependency's output: what
                // counts is what it prints when the file is finally built (the dependency is
                // complete by then), not what an earlier pass saw
                let payload = format!("payload {i} {}\n", rng.below(100000));
                p.add_file(&join(&dir, &format!("dep{i}.txt.txtpp")), B(payload.clone().into_bytes()));
                lines.push(format!("-TXTPP#run cat 'dep{i}.txt' 2>/dev/null || true"));
                lines.push(format!("TXTPP#after dep{i}.txt"));
                params.insert(format!("stdout_text.{path}"), payload);
            }
            "stdout" => {
                // more than a read buffer of multi-byte characters, at every alignment
                let pad = rng.below(4);
                let ch = *rng.pick(&["\u{20ac}", "\u{e9}", "\u{1f600}", "\u{2713}x"]);
                let reps = *rng.pick(&[3000usize, 2731, 9000, 30000, 100000]);
                let mut data = "a".repeat(pad);
                for _ in 0..reps {
                    data.push_str(ch);
                }
                data.push('\n');
                p.add_file(&join(&dir, &format!("big{i}.txt")), B(data.clone().into_bytes()));
                lines.push(format!("-TXTPP#run cat big{i}.txt"));
                params.insert(format!("stdout.{path}"), format!("big{i}.txt"));
            }
            "env" | "cli-env" | "cli-guard" => {
                lines.push("-TXTPP#run pwd".into());
                // a different prefix: the same one would make this line a continuation of `pwd`
                lines.push("+TXTPP#run printf '%s\\n' \"$TXTPP_FILE\"".into());
                if rng.chance(1, 2) {
                    // multi-line command, still printing the working directory
                    lines.push("// TXTPP#run cd .".into());
                    lines.push("// && pwd".into());
                }
            }
            "argv" => {
                let k = rng.range(1, 3);
                let mut expected = vec![];
                for _ in 0..k {
                    let prefix = *rng.pick(&["-", "// ", "# ", "--"]);
                    let (ls, cmd) = gen_command(&mut rng, prefix, "");
                    lines.extend(ls);
                    lines.push("~".into());
                    expected.push(cmd);
                }
                params.insert(format!("expected.{path}"), serde_json::to_string(&expected).unwrap());
            }
            _ => {
                // status
                let code = *rng.pick(&[0usize, 0, 1, 2, 3, 127, 255]);
                let cmd = match rng.below(4) {
                    0 => format!("exit {code}"),
                    1 => format!("printf before; exit {code}"),
                    2 => format!("sh -c 'exit {code}'"),
                    _ => {
                        if code == 0 {
                            "true".to_string()
                        } else if rng.chance(1, 3) {
                            "kill -9 $$".to_string()
                        } else {
                            "false".to_string()
                        }
                    }
                };
                if code != 0 || cmd.starts_with("kill") || cmd == "false" {
                    expect_err = true;
                }
                if cmd == "true" {
                    // nothing
                }
                lines.push(format!("-TXTPP#run {cmd}"));
            }
        }
        lines.push("end".into());
        let mut t = lines.join("\n");
        t.push('\n');
        p.add_file(&path, B(t.into_bytes()));
    }
    let mut only_input: Option<String> = None;
    if matches!(variant, "env") && n_src >= 2 && rng.chance(1, 3) {
        // the second source is reached as a dependency of the first, which alone is requested
        let (s0, s1) = (src_paths[0].clone(), src_paths[1].clone());
        if let (Some(d0), Some(o1)) = (p.file(&s0).cloned(), crate::names::out_path(&s1)) {
            let dir0 = tree::parent_rel(&s0).to_string();
            let t = d0.lossy();
            let t = t.trim_end_matches("end\n").to_string() + &format!("TXTPP#after {}\nend\n", gen::rel_path(&dir0, &o1));
            p.set_file(&s0, B(t.into_bytes()));
            only_input = Some(gen::rel_path(&base, &s0));
            params.insert("dependency_first".into(), "true".into());
        }
    }
    if matches!(variant, "env") && only_input.is_none() && rng.chance(1, 3) {
        // w/base-common/part.txt.txtpp, included from a source directly in the base directory
        p.add_dir("w/base-common");
        p.add_file(
            "w/base-common/part.txt.txtpp",
            B::s("begin\n-TXTPP#run pwd\n+TXTPP#run printf '%s\\n' \"$TXTPP_FILE\"\nend\n"),
        );
        p.add_file(
            &join(&base, "uses_part.txt.txtpp"),
            B::s("begin\n-TXTPP#run pwd\n+TXTPP#run printf '%s\\n' \"$TXTPP_FILE\"\nTXTPP#after ../base-common/part.txt\nend\n"),
        );
        params.insert("outside_base".into(), "true".into());
    }
    params.insert("expect_err".into(), format!("{expect_err}"));
    let mut cfg = RunCfg::simple(ModeS::Build, &base, vec![".".into()], *rng.pick(&gen::KS));
    cfg.recursive = true;
    if let Some(i) = only_input {
        cfg.inputs = vec![i];
    }
    match variant {
        "cli-env" | "cli-guard" => {}
        _ => {
            match rng.below(4) {
                0 => {}
                1 => cfg.cwd = Some("w".into()),
                2 => cfg.cwd = Some(String::new()),
                _ => cfg.cwd = Some("elsewhere/deep".into()),
            }
            cfg.base_relative = rng.chance(1, 2);
        }
    }
    cfg.shell = match variant {
        "argv" => "printf %s\\n".to_string(),
        _ => match rng.below(8) {
            0 | 1 => "bash -c".to_string(),
            // the shell option is split on whitespace: runs of blanks, tabs and a trailing blank
            6 => (*rng.pick(&["bash  -c", "bash -c ", "bash\t-c", " bash -c"])).to_string(),
            2 => {
                // a shell given by a path relative to the process working directory
                let cwd = cfg.cwd.clone().unwrap_or_else(|| base.clone());
                p.add_file(&join(&cwd, "tools/mysh"), B::s("#!/bin/sh\nexec /bin/sh \"$@\"\n"));
                "./tools/mysh -c".to_string()
            }
            _ => String::new(),
        },
    };
    if variant == "cli-guard" {
        params.insert(
            "txtpp_file_env".into(),
            (*rng.pick(&["x", "/some/file.txtpp", " ", "", "caf\u{F7E9}.txt.txtpp", "\u{F7FF}"])).to_string(),
        );
    }
    let s = rng.next();
    Case {
        property: prop.to_string(),
        variant: variant.to_string(),
        seed,
        index,
        project: p,
        ops: vec![Op::Run {
            cfg,
            sched: gen::pick_sched(&mut rng, s),
            label: "build".into(),
        }],
        params,
    }
}

fn canon(p: &std::path::Path) -> Option<std::path::PathBuf> {
    p.canonicalize().ok()
}

/// Check the env-variant output of one source.
fn check_env_output(root: &std::path::Path, base: &str, src: &str, out_bytes: &[u8]) -> Option<(String, String)> {
    let text = String::from_utf8_lossy(out_bytes);
    let lines: Vec<&str> = text.lines().collect();
    let src_abs = canon(&root.join(src))?;
    let dir_abs = src_abs.parent()?.to_path_buf();
    if lines.len() < 4 || lines[0] != "begin" || *lines.last().unwrap() != "end" {
        return Some((
            "run-output-not-spliced".into(),
            format!("output of {src} is not begin/<pwd>/<file>/end: {text:?}"),
        ));
    }
    let pwd = lines[1];
    if canon(std::path::Path::new(pwd)).as_deref() != Some(dir_abs.as_path()) {
        return Some((
            "command-ran-in-wrong-directory".into(),
            format!("{src}: `pwd` printed {pwd:?}, the source's directory is {dir_abs:?}"),
        ));
    }
    let f = lines[2];
    let as_abs = canon(std::path::Path::new(f));
    let as_rel = canon(&tree::abs(root, base).join(f));
    let ok = (std::path::Path::new(f).is_absolute() && as_abs.as_deref() == Some(src_abs.as_path()))
        || (!std::path::Path::new(f).is_absolute() && as_rel.as_deref() == Some(src_abs.as_path()));
    if !ok {
        return Some((
            "txtpp-file-does-not-designate-source".into(),
            format!("{src}: TXTPP_FILE was {f:?}, which designates neither absolutely nor relative to the base directory the source {src_abs:?}"),
        ));
    }
    for extra in &lines[3..lines.len() - 1] {
        if canon(std::path::Path::new(extra)).as_deref() != Some(dir_abs.as_path()) {
            return Some((
                "command-ran-in-wrong-directory".into(),
                format!("{src}: multi-line command printed {extra:?}, the source's directory is {dir_abs:?}"),
            ));
        }
    }
    None
}

pub fn run(case: &Case, ctx: &mut Ctx) -> CaseOutcome {
    let mut out = CaseOutcome::default();
    let variant = case.variant.as_str();
    let (cfg, _sched) = match first_run(case) {
        Some(x) => x,
        None => return out,
    };
    let a = crate::spec::analyze(&case.project);
    if cfg.shell.starts_with("./tools/mysh") {
        // needs a scratch file system that allows executing scripts
        tree::plant(&ctx.env.root, &case.project);
        let cwd = cfg.cwd.clone().unwrap_or_else(|| cfg.base.clone());
        let ok = std::process::Command::new(tree::abs(&ctx.env.root, &cwd).join("tools/mysh"))
            .arg("-c")
            .arg("true")
            .stdin(std::process::Stdio::null())
            .stdout(std::process::Stdio::null())
            .stderr(std::process::Stdio::null())
            .status()
            .map(|s| s.success())
            .unwrap_or(false);
        if !ok {
            ctx.stats.count("skipped.scratch_cannot_execute_scripts");
            return out;
        }
        ctx.stats.count("c17.shell.relative_path");
    }
    ctx.stats.count(&format!("c17.variant.{variant}"));
    if variant == "cli-env" || variant == "cli-guard" {
        // real binary, OS scheduling; cwd = base (the binary fixes base_dir = ".")
        tree::plant(&ctx.env.root, &case.project);
        let before = tree::snapshot(&ctx.env.root);
        let exe = std::env::var("VERIF_CLI")
            .map(std::path::PathBuf::from)
            .unwrap_or_else(|_| crate::driver::verif_dir().join("sim/target-cli/release/txtpp"));
        if !exe.is_file() {
            ctx.stats.count("skipped.no_cli_binary");
            return out;
        }
        let mut c = std::process::Command::new(&exe);
        c.current_dir(tree::abs(&ctx.env.root, &cfg.base));
        c.env("RUST_BACKTRACE", "0");
        c.env_remove("TXTPP_FILE");
        let guard_val = case.params.get("txtpp_file_env").cloned();
        if let Some(v) = &guard_val {
            // U+F700+byte spells a byte that is not valid UTF-8 (tree::osp): the variable may hold any bytes
            c.env("TXTPP_FILE", tree::osp(v).into_os_string());
        }
        c.arg("-q").arg("-r").arg("-j").arg(cfg.k.to_string());
        if !cfg.shell.is_empty() {
            c.arg("-s").arg(&cfg.shell);
        }
        c.stdin(std::process::Stdio::null())
            .stdout(std::process::Stdio::null())
            .stderr(std::process::Stdio::null());
        let code = match status_with_timeout(&mut c, 60) {
            Ok(Some(code)) => code,
            Ok(None) => {
                out.violate("C17", "cli-hang", "the txtpp binary did not terminate within 60 s".to_string());
                return out;
            }
            Err(_) => -1,
        };
        let after = tree::snapshot(&ctx.env.root);
        out.digest = mix(&[tree::snap_hash(&after), code as u64]);
        out.recorded = Some(case.clone());
        ctx.stats.nontrivial.insert(mix(&[project_hash(&case.project), cfg_hash(cfg), 7]));
        match guard_val.as_deref() {
            Some(v) if !v.is_empty() => {
                ctx.stats.count("c17.cli_guard_checked");
                if code == 0 {
                    out.violate("C17", "cli-ran-as-subcommand", format!("txtpp started (exit 0) although TXTPP_FILE={v:?} was set"));
                } else if !tree::diff(&before, &after).is_empty() {
                    out.violate(
                        "C17",
                        "cli-ran-as-subcommand",
                        format!("txtpp exited {code} with TXTPP_FILE={v:?} set but changed the tree: {:?}", tree::diff(&before, &after)),
                    );
                }
            }
            _ => {
                ctx.stats.count("c17.cli_env_checked");
                if code != 0 {
                    out.violate("C17", "cli-build-failed", format!("txtpp binary exited {code} on an error-free project (TXTPP_FILE unset or empty)"));
                } else {
                    for s in &a.sources {
                        match tree::file_bytes(&after, &s.out) {
                            Some(b) => {
                                if let Some((c, m)) = check_env_output(&ctx.env.root, &cfg.base, &s.path, b) {
                                    out.violate("C17", &c, format!("[cli] {m}"));
                                }
                            }
                            None => out.violate("C17", "cli-build-failed", format!("output {} missing after a successful CLI run", s.out)),
                        }
                    }
                }
            }
        }
        return out;
    }

    let mut rec = case.clone();
    let h = exec(case, ctx, &mut rec);
    out.poisoned = h.poisoned;
    if let Some(d) = &h.diverged {
        out.harness_error = Some(format!("replay divergence: {d}"));
        return out;
    }
    out.recorded = Some(rec);
    let last = match h.runs.last() {
        Some(r) => r,
        None => return out,
    };
    out.digest = mix(&[last.sim.log_hash(), tree::snap_hash(&last.after)]);
    out.trace = tail(&last.sim.log, 40);
    if h.poisoned {
        return out;
    }
    ctx.stats.nontrivial.insert(mix(&[project_hash(&case.project), cfg_hash(cfg), last.sim.actions_hash()]));
    let cwd_kind = match cfg.cwd.as_deref() {
        None => "base",
        Some("w") | Some("") => "ancestor",
        _ => "unrelated",
    };
    ctx.stats.count(&format!("c17.cwd.{cwd_kind}"));
    ctx.stats.count(if cfg.base_relative { "c17.base.relative" } else { "c17.base.absolute" });
    ctx.stats.count(if cfg.shell.is_empty() { "c17.shell.default" } else { "c17.shell.configured" });
    for s in &a.sources {
        let depth = s.dir.matches('/').count().saturating_sub(1);
        ctx.stats.count(&format!("c17.depth.{depth}"));
    }
    let expect_err = case.params.get("expect_err").map(|s| s == "true").unwrap_or(false);
    match variant {
        "status" => match (&last.sim.verdict, expect_err) {
            (Verdict::Ok, true) => out.violate(
                "C17",
                "failing-command-accepted",
                "a run command exited non-zero (or was killed) but the build succeeded".to_string(),
            ),
            (Verdict::Err(e), false) => out.violate(
                "C17",
                "succeeding-command-rejected",
                format!("every command exits 0 but the build failed: {}", err_brief(e)),
            ),
            _ => {}
        },
        "env" => match &last.sim.verdict {
            Verdict::Ok => {
                for s in &a.sources {
                    if let Some(b) = tree::file_bytes(&last.after, &s.out) {
                        if let Some((c, m)) = check_env_output(&ctx.env.root, &cfg.base, &s.path, b) {
                            out.violate("C17", &c, format!("[cwd={cwd_kind}, base {}] {m}", if cfg.base_relative { "relative" } else { "absolute" }));
                        }
                    }
                }
            }
            Verdict::Err(e) if e.contains("Failed to execute") || e.contains("failed to run command") => out.violate(
                "C17",
                "command-could-not-run-in-source-directory",
                format!(
                    "[cwd={cwd_kind}, base {}] `pwd` in a source below the base directory failed: {}",
                    if cfg.base_relative { "relative" } else { "absolute" },
                    err_brief(e)
                ),
            ),
            _ => {}
        },
        "stdout" => match &last.sim.verdict {
            Verdict::Ok => {
                for s in &a.sources {
                    let (big, data) = match (
                        case.params.get(&format!("stdout.{}", s.path)),
                        case.params.get(&format!("stdout_text.{}", s.path)),
                    ) {
                        (Some(b), _) => {
                            let big = join(&s.dir, b);
                            let data = case.project.file(&big).map(|d| d.0.clone()).unwrap_or_default();
                            (big, data)
                        }
                        (None, Some(t)) => ("the dependency's output".to_string(), t.clone().into_bytes()),
                        _ => continue,
                    };
                    let mut want = b"begin\n".to_vec();
                    want.extend_from_slice(&data);
                    want.extend_from_slice(b"end\n");
                    let got = tree::file_bytes(&last.after, &s.out).unwrap_or(&[]);
                    ctx.stats.count("c17.big_stdout_checked");
                    if got != want.as_slice() {
                        let at = got.iter().zip(want.iter()).position(|(x, y)| x != y).unwrap_or(got.len().min(want.len()));
                        out.violate(
                            "C17",
                            "run-output-not-spliced",
                            format!(
                                "{}: stdout of `cat {}` ({} bytes of multi-byte text) is not the directive result: output has {} bytes, expected {}, first difference at byte {at}",
                                s.path,
                                big,
                                data.len(),
                                got.len(),
                                want.len()
                            ),
                        );
                    }
                }
            }
            Verdict::Err(e) => out.violate("C17", "succeeding-command-rejected", format!("`cat` of a text file failed: {}", err_brief(e))),
            _ => {}
        },
        "argv" => match &last.sim.verdict {
            Verdict::Ok => {
                for s in &a.sources {
                    let expected: Vec<String> = case
                        .params
                        .get(&format!("expected.{}", s.path))
                        .and_then(|j| serde_json::from_str(j).ok())
                        .unwrap_or_default();
                    if expected.is_empty() {
                        continue;
                    }
                    let mut want = String::from("begin\n");
                    for e in &expected {
                        want.push_str(e);
                        want.push_str("\n~\n");
                    }
                    want.push_str("end\n");
                    let got = match last.after.get(&s.out) {
                        Some(Node::File { data, .. }) => String::from_utf8_lossy(data).to_string(),
                        _ => String::new(),
                    };
                    if got != want {
                        out.violate(
                            "C17",
                            "command-not-passed-as-one-joined-argument",
                            format!("{}: the configured shell `printf %s\\n` shows what it received: got {got:?}, want {want:?}", s.path),
                        );
                    }
                }
            }
            Verdict::Err(e) if e.contains("Failed to execute") || e.contains("failed to run command") => out.violate(
                "C17",
                "command-could-not-run-in-source-directory",
                format!("[cwd={cwd_kind}] configured shell failed: {}", err_brief(e)),
            ),
            _ => {}
        },
        _ => {}
    }
    if ctx.stats.samples.len() < 4 && case.index % 67 == 0 {
        ctx.stats.samples.push(serde_json::json!({
            "index": case.index, "variant": variant,
            "sources": a.sources.iter().map(|s| s.path.clone()).collect::<Vec<_>>(),
            "base": cfg.base, "cwd": cfg.cwd, "base_relative": cfg.base_relative, "shell": cfg.shell,
            "verdict": last.sim.verdict.short(),
        }));
    }
    out
}
