//! Fault grid engine (C04): fault kind x position of the faulty file x mode, each cell
//! instantiated on seeded graphs and run under seeded schedules. All faults are real OS behaviour.
use super::common::*;
use super::history::{err_brief, exec};
use super::{rng_for, Ctx, Tier};
use crate::ctl::Verdict;
use crate::gen::{self, GraphOpts, Resolved};
use crate::model::*;
use crate::rng::{mix, Rng};
use crate::spec::{analyze, Analysis};
use crate::stats::CaseOutcome;
use crate::tree;
use std::collections::{BTreeMap, BTreeSet};

pub const FAULTS: [&str; 19] = [
    "F1-tag-while-listening",
    "F1-prefixless-multiline",
    "F1-temp-target-txtpp",
    "F1-unused-tag",
    "F2-command-fails-before-deps",
    "F2-command-fails-after-deps",
    "F2-command-killed-by-signal",
    "F3-include-missing",
    "F3-include-directory",
    "F3-include-invalid-utf8",
    "F4-source-invalid-utf8",
    "F5a-output-is-directory",
    "F5b-output-dangling-symlink",
    "F6-output-dev-full",
    "F7a-temp-parent-missing",
    "F7b-temp-target-is-directory",
    "F7c-temp-target-unwritable",
    "F9-tampered-output",
    "F8-fsize-limit",
];
pub const POSITIONS: [&str; 5] = ["leaf", "middle", "root", "sibling", "outside"];

/// Modes in which a fault is meaningful (DESIGN.md section 5, C04 table).
pub fn modes_for(fault: &str) -> Vec<ModeS> {
    match fault {
        "F5a-output-is-directory" => vec![ModeS::Build, ModeS::Needed, ModeS::Verify, ModeS::Clean],
        "F6-output-dev-full" => vec![ModeS::Build],
        // verify writes nothing once the temp files are in place: build modes only
        "F8-fsize-limit" => vec![ModeS::Build, ModeS::Needed],
        "F9-tampered-output" => vec![ModeS::Verify],
        _ => vec![ModeS::Build, ModeS::Needed, ModeS::Verify],
    }
}

pub fn cells() -> Vec<(&'static str, &'static str, ModeS)> {
    let mut v = vec![];
    for f in FAULTS {
        for p in POSITIONS {
            for m in modes_for(f) {
                v.push((f, p, m));
            }
        }
    }
    v
}

fn position_of(a: &Analysis, i: usize, req: &BTreeSet<usize>, named: &BTreeSet<usize>) -> &'static str {
    if !req.contains(&i) {
        return "outside";
    }
    let has_deps = !a.sources[i].deps.is_empty();
    let has_dependers = a
        .sources
        .iter()
        .enumerate()
        .any(|(j, s)| j != i && req.contains(&j) && s.deps.iter().any(|d| d.target == i));
    match (has_deps, has_dependers) {
        (false, true) => "leaf",
        (true, true) => "middle",
        (true, false) => "root",
        (false, false) => {
            if named.contains(&i) {
                "sibling"
            } else {
                "leaf"
            }
        }
    }
}

fn fault_opts() -> GraphOpts {
    GraphOpts {
        max_n: 5,
        cyclic: false,
        markers: false,
        probes: false,
        temps: true,
        big: true,
        dotted: super::graph::DOTTED_STEMS,
        absolute: false,
        decoys: false,
        mark_all: false,
        sized: true,
        wide: true,
        mega: false,
        symlinks: false,
        read_above: false,
        scratch_dir: false,
    }
}

/// Insert lines into a source at an element boundary chosen by `before_deps`.
fn insert_lines(p: &Project, a: &Analysis, i: usize, bad: &[String], rng: &mut Rng, placement: Option<bool>) -> Op {
    let s = &a.sources[i];
    let data = p.file(&s.path).map(|d| d.lossy()).unwrap_or_default();
    let eol = crate::spec::line_ending(&data);
    let mut lines: Vec<String> = crate::spec::split_lines(&data).iter().map(|x| x.to_string()).collect();
    // line index of the first / last dependency line
    let dep_lines: Vec<usize> = s
        .deps
        .iter()
        .filter_map(|d| match &s.elems[d.elem] {
            crate::spec::Elem::D(dd) => Some(dd.line),
            _ => None,
        })
        .collect();
    // at an element boundary (never between a directive and its continuation lines)
    let starts = crate::spec::element_starts(&data);
    let pick_in = |rng: &mut Rng, lo: usize, hi: usize| -> usize {
        let c: Vec<usize> = starts.iter().copied().filter(|i| *i >= lo && *i <= hi).collect();
        if c.is_empty() {
            hi.min(lines.len())
        } else {
            *rng.pick(&c)
        }
    };
    let at = match (placement, dep_lines.iter().min(), dep_lines.iter().max()) {
        (Some(true), Some(first), _) => pick_in(rng, 1.min(*first), *first),
        (Some(false), _, Some(last)) => pick_in(rng, last + 1, lines.len()),
        _ => {
            if lines.is_empty() {
                0
            } else {
                pick_in(rng, 1, lines.len())
            }
        }
    };
    let mut block = vec!["~".to_string()];
    block.extend(bad.iter().cloned());
    block.push("~".to_string());
    for (k, l) in block.into_iter().enumerate() {
        lines.insert((at + k).min(lines.len()), l);
    }
    let mut t = lines.join(eol);
    t.push_str(eol);
    Op::Write {
        path: s.path.clone(),
        data: B(t.into_bytes()),
    }
}

/// The operations that plant `fault` on source `i`. None if the fault cannot be planted there.
fn fault_ops(fault: &str, p: &Project, a: &Analysis, i: usize, rng: &mut Rng) -> Option<Vec<Op>> {
    let s = &a.sources[i];
    let dir = &s.dir;
    let in_dir = |name: &str| {
        if dir.is_empty() {
            name.to_string()
        } else {
            format!("{dir}/{name}")
        }
    };
    let ops = match fault {
        "F1-tag-while-listening" => vec![insert_lines(p, a, i, &["TXTPP#tag TA".into(), "TXTPP#tag TB".into()], rng, None)],
        "F1-prefixless-multiline" => vec![insert_lines(p, a, i, &["TXTPP#run printf x".into()], rng, None)],
        "F1-temp-target-txtpp" => vec![insert_lines(p, a, i, &["-TXTPP#temp bad.txt.txtpp".into(), "-body".into()], rng, None)],
        "F1-unused-tag" => vec![insert_lines(p, a, i, &["TXTPP#tag NEVERUSED".into(), "-TXTPP#run printf stored".into()], rng, None)],
        "F2-command-fails-before-deps" => vec![insert_lines(p, a, i, &["-TXTPP#run exit 3".into()], rng, Some(true))],
        "F2-command-fails-after-deps" => {
            if s.deps.is_empty() {
                return None;
            }
            vec![insert_lines(p, a, i, &["-TXTPP#run printf partial; exit 7".into()], rng, Some(false))]
        }
        "F2-command-killed-by-signal" => vec![insert_lines(
            p,
            a,
            i,
            &["-TXTPP#run printf partial; kill -9 $$".into()],
            rng,
            None,
        )],
        "F3-include-missing" => vec![insert_lines(p, a, i, &["TXTPP#include no_such_file.txt".into()], rng, None)],
        "F3-include-directory" => vec![insert_lines(p, a, i, &["TXTPP#include .".into()], rng, None)],
        "F3-include-invalid-utf8" => vec![
            Op::Write {
                path: in_dir("binary.dat"),
                data: B(vec![b'o', b'k', b'\n', 0xff, 0xfe, b'\n']),
            },
            insert_lines(p, a, i, &["TXTPP#include binary.dat".into()], rng, None),
        ],
        "F4-source-invalid-utf8" => {
            let mut data = p.file(&s.path)?.0.clone();
            // corrupt from line k on: insert an invalid byte sequence at a line start
            let starts: Vec<usize> = std::iter::once(0)
                .chain(data.iter().enumerate().filter(|(_, b)| **b == b'\n').map(|(i, _)| i + 1))
                .filter(|i| *i <= data.len())
                .collect();
            let at = *rng.pick(&starts);
            for (k, b) in [0xffu8, 0xfe, b'\n'].iter().enumerate() {
                data.insert(at + k, *b);
            }
            vec![Op::Write {
                path: s.path.clone(),
                data: B(data),
            }]
        }
        "F5a-output-is-directory" => vec![Op::Plant {
            entry: Entry::Dir { path: s.out.clone() },
        }],
        "F5b-output-dangling-symlink" => vec![Op::Plant {
            entry: Entry::Symlink {
                path: s.out.clone(),
                target: "no_such_dir/target".into(),
            },
        }],
        "F6-output-dev-full" => vec![Op::Plant {
            entry: Entry::Symlink {
                path: s.out.clone(),
                target: "/dev/full".into(),
            },
        }],
        "F7a-temp-parent-missing" => vec![insert_lines(
            p,
            a,
            i,
            &["-TXTPP#temp no_such_dir/t.tmp".into(), "-body".into()],
            rng,
            None,
        )],
        "F7b-temp-target-is-directory" => vec![
            Op::Plant {
                entry: Entry::Dir {
                    path: in_dir(&format!("tdir{i}")),
                },
            },
            insert_lines(p, a, i, &[format!("-TXTPP#temp tdir{i}"), "-body".into()], rng, None),
        ],
        "F7c-temp-target-unwritable" => vec![
            Op::Plant {
                entry: Entry::Symlink {
                    path: in_dir(&format!("tlink{i}.tmp")),
                    target: "/proc/version".into(),
                },
            },
            insert_lines(p, a, i, &[format!("-TXTPP#temp tlink{i}.tmp"), "-body".into()], rng, None),
        ],
        "F8-fsize-limit" => {
            // half of the time the file ends with one large chunk (an include of a 40 KiB file):
            // a single write call that the size limit can cut in the middle
            if rng.chance(1, 2) {
                let mut blob = String::new();
                while blob.len() < 40 * 1024 {
                    blob.push_str("blob blob blob blob blob blob blob blob blob blob blob blob blob\n");
                }
                let data = p.file(&s.path).map(|d| d.lossy()).unwrap_or_default();
                let eol = crate::spec::line_ending(&data);
                let mut t = data.clone();
                if !t.is_empty() && !t.ends_with('\n') {
                    t.push_str(eol);
                }
                t.push_str("~");
                t.push_str(eol);
                t.push_str("TXTPP#include bigblob.txt");
                vec![
                    Op::Write {
                        path: in_dir("bigblob.txt"),
                        data: B(blob.into_bytes()),
                    },
                    Op::Write {
                        path: s.path.clone(),
                        data: B(t.into_bytes()),
                    },
                ]
            } else {
                vec![]
            }
        }
        "F9-tampered-output" => {
            let kinds = [
                TamperKind::Flip,
                TamperKind::Insert,
                TamperKind::Delete,
                TamperKind::Append,
                TamperKind::Truncate,
                TamperKind::Remove,
                TamperKind::LossyTwin,
                // (a third of the tampers: the one kind a comparison of decoded text cannot see)
                TamperKind::LossyTwin,
                TamperKind::LossyTwin,
                TamperKind::CrlfFirst,
            ];
            vec![Op::Tamper {
                path: s.out.clone(),
                kind: rng.pick(&kinds).clone(),
                at: *rng.pick(&[0u32, 500, 1000, 250]),
            }]
        }
        _ => return None,
    };
    Some(ops)
}

pub fn gen(prop: &str, seed: u64, index: u64, _tier: Tier) -> Case {
    let cs = cells();
    let per = super::per_project(prop);
    let pi = index / per;
    let (fault, want_pos, mode) = cs[(pi % cs.len() as u64) as usize];
    let mut prng = rng_for(seed, prop, pi, "project");
    let mut rng = rng_for(seed, prop, index, "schedule");
    let o = fault_opts();
    // look for a graph that has a file in the wanted position
    let mut best: Option<(Project, Vec<String>, bool, usize, &'static str)> = None;
    for attempt in 0..24 {
        let n = prng.range(2, 5);
        let e = gen::gen_edges(&mut prng, n, false);
        let p = gen::gen_graph_project(&mut prng, &o, n, &e);
        let a = analyze(&p);
        let (inputs, recursive) = if want_pos == "outside" || attempt % 2 == 1 {
            // name specific files so that something can be outside the closure
            let k = prng.range(1, 2.min(a.n()));
            let mut v = vec![];
            for _ in 0..k {
                let s = &a.sources[prng.below(a.n())];
                v.push(if prng.chance(1, 2) { s.out.clone() } else { s.path.clone() });
            }
            (v, true)
        } else {
            (vec![".".to_string()], true)
        };
        let named = match gen::r_inputs(&p, &a, "", &inputs, recursive) {
            Resolved::Sources(s) => s,
            _ => continue,
        };
        let req = a.closure(&named);
        let cands: Vec<usize> = (0..a.n())
            .filter(|i| position_of(&a, *i, &req, &named) == want_pos)
            .filter(|i| fault != "F2-command-fails-after-deps" || !a.sources[*i].deps.is_empty())
            .collect();
        if !cands.is_empty() {
            let i = *prng.pick(&cands);
            best = Some((p, inputs, recursive, i, want_pos));
            break;
        }
        if best.is_none() {
            let i = prng.below(a.n());
            let pos = position_of(&a, i, &req, &named);
            if fault != "F2-command-fails-after-deps" || !a.sources[i].deps.is_empty() {
                best = Some((p, inputs, recursive, i, pos));
            }
        }
    }
    let (project, inputs, recursive, fi, pos) = best.unwrap_or_else(|| {
        let mut e = BTreeSet::new();
        e.insert((0usize, 1usize));
        let p = gen::gen_graph_project(&mut prng, &o, 2, &e);
        (p, vec![".".to_string()], true, 0, "root")
    });
    let a = analyze(&project);
    let tn = if fault == "F8-fsize-limit" { !prng.chance(1, 2) } else { !prng.chance(1, 6) };
    let mut ops = vec![];
    let mk_run = |rng: &mut Rng, mode: ModeS, label: &str| {
        let mut cfg = RunCfg::simple(mode, "", inputs.clone(), *rng.pick(&gen::KS));
        cfg.recursive = recursive;
        cfg.trailing_newline = tn;
        let s = rng.next();
        Op::Run {
            cfg,
            sched: gen::pick_sched(rng, s),
            label: label.to_string(),
        }
    };
    if matches!(mode, ModeS::Verify) || (mode == ModeS::Clean) {
        // a built tree first (fault-free), so that verify has something to compare with
        ops.push(mk_run(&mut rng, ModeS::Build, "setup-build"));
    }
    let mut frng = rng_for(seed, prop, pi, "fault");
    let planted = fault_ops(fault, &project, &a, fi, &mut frng);
    let mut params = BTreeMap::new();
    params.insert("fault".to_string(), fault.to_string());
    params.insert("position".to_string(), pos.to_string());
    params.insert("faulty".to_string(), a.sources[fi].path.clone());
    params.insert("planted".to_string(), format!("{}", planted.is_some()));
    if fault == "F8-fsize-limit" {
        params.insert("fsize_pick".to_string(), format!("{}", frng.below(1000)));
        params.insert(
            "fsize_delta".to_string(),
            (*frng.pick(&["-1", "-1", "0", "+1", "=1", "=4096", "=8192", "half"])).to_string(),
        );
    }
    if let Some(f) = planted {
        ops.extend(f);
    }
    ops.push(mk_run(&mut rng, mode, "faulted-run"));
    if fault == "F8-fsize-limit" && matches!(mode, ModeS::Build | ModeS::Needed) && rng.chance(1, 2) {
        // once the limit is lifted the same build runs again: if it reports success, everything
        // is complete and correct, whatever the failed run left (or left running)
        ops.push(mk_run(&mut rng, mode, "retry-after-fault"));
    }
    Case {
        property: prop.to_string(),
        variant: format!("{fault}/{pos}/{}", mode.name()),
        seed,
        index,
        project,
        ops,
        params,
    }
}

fn cli_path() -> std::path::PathBuf {
    std::env::var("VERIF_CLI")
        .map(std::path::PathBuf::from)
        .unwrap_or_else(|_| crate::driver::verif_dir().join("sim/target-cli/release/txtpp"))
}

pub fn run_cli(root: &std::path::Path, cfg: &RunCfg) -> Option<i32> {
    let exe = cli_path();
    if !exe.is_file() {
        return None;
    }
    let mut c = std::process::Command::new(exe);
    c.current_dir(tree::abs(root, &cfg.base));
    c.env_remove("TXTPP_FILE");
    c.env("RUST_BACKTRACE", "0");
    // the top-level -N flag is accepted in front of a subcommand and must not change its mode
    let stray_needed = std::env::var("VERIF_CLI_STRAY_N").map(|v| v == "1").unwrap_or(false);
    match cfg.mode {
        ModeS::Verify => {
            if stray_needed {
                c.arg("-N");
            }
            c.arg("verify");
        }
        ModeS::Clean => {
            if stray_needed {
                c.arg("-N");
            }
            c.arg("clean");
        }
        ModeS::Needed => {
            c.arg("-N");
        }
        ModeS::Build => {}
    }
    match cfg.console {
        0 => {
            c.arg("-q");
        }
        1 | 3 => {}
        _ => {
            c.arg("-v");
        }
    }
    c.arg("-j").arg(cfg.k.max(1).to_string());
    if cfg.recursive {
        c.arg("-r");
    }
    if cfg.mode != ModeS::Clean {
        if !cfg.trailing_newline {
            c.arg("-n");
        }
        if !cfg.shell.is_empty() {
            c.arg("-s").arg(&cfg.shell);
        }
    }
    c.arg("--");
    for i in &cfg.inputs {
        c.arg(i.replace("@ROOT@", &root.display().to_string()));
    }
    c.stdin(std::process::Stdio::null())
        .stdout(std::process::Stdio::null())
        .stderr(std::process::Stdio::null());
    // Some(-9999) = the binary did not terminate within a minute
    match status_with_timeout(&mut c, 60) {
        Ok(Some(code)) => Some(code),
        Ok(None) => Some(-9999),
        Err(_) => None,
    }
}

/// The project as the faulted run sees its sources: source edits among the operations applied.
fn project_with_writes(case: &Case) -> Project {
    let mut p = case.project.clone();
    for op in &case.ops {
        if let Op::Write { path, data } = op {
            p.add_file(path, data.clone());
        }
    }
    p
}

/// Index of the operation that is the faulted run (the last run unless a retry follows it).
fn faulted_index(case: &Case) -> Option<usize> {
    let by_label = case
        .ops
        .iter()
        .rposition(|o| matches!(o, Op::Run { label, .. } if label == "faulted-run"));
    by_label.or_else(|| case.ops.iter().rposition(|o| matches!(o, Op::Run { .. })))
}

/// F8: turn the relative description of the size limit into bytes, from the sizes a reference
/// build of the same sources produces. Returns (case with the limit filled in, expected failure).
fn resolve_fsize(case: &Case, ctx: &mut Ctx) -> Option<(Case, bool, String)> {
    let fi = faulted_index(case)?;
    let (cfg, _) = match case.ops.get(fi) {
        Some(Op::Run { cfg, sched, .. }) => (cfg.clone(), sched.clone()),
        _ => return None,
    };
    let project = project_with_writes(case);
    let a = analyze(&project);
    let named = match gen::r_inputs(&project, &a, &cfg.base, &cfg.inputs, cfg.recursive) {
        Resolved::Sources(s) => s,
        _ => return None,
    };
    let req = a.closure(&named);
    tree::plant(&ctx.env.ref_root, &project);
    let r = crate::env::rseq(
        ctx.env,
        &ctx.env.ref_root,
        &a,
        &req,
        &cfg.base,
        txtpp::Mode::Build,
        cfg.trailing_newline,
        &cfg.shell,
    );
    if !r.all_ok(&req) {
        return None;
    }
    // sizes of the products of the closure
    let mut sizes: Vec<(String, String, usize)> = vec![];
    for i in &req {
        for g in a.sources[*i].generated() {
            if let Some(b) = r.files.get(&g) {
                sizes.push((a.sources[*i].path.clone(), g, b.len()));
            }
        }
    }
    let max = sizes.iter().map(|x| x.2).max().unwrap_or(0);
    let limit: u64 = if let Some(l) = cfg.fsize_limit {
        l
    } else {
        let cands: Vec<&(String, String, usize)> = sizes.iter().filter(|x| x.2 > 0).collect();
        if cands.is_empty() {
            return None;
        }
        let pick: usize = case.params.get("fsize_pick").and_then(|s| s.parse().ok()).unwrap_or(0);
        let len = cands[pick % cands.len()].2 as u64;
        match case.params.get("fsize_delta").map(|s| s.as_str()).unwrap_or("0") {
            "-1" => len - 1,
            "0" => len,
            "+1" => len + 1,
            "=1" => 1,
            "=4096" => 4096,
            "=8192" => 8192,
            _ => len / 2,
        }
    };
    let mut c = case.clone();
    if let Some(Op::Run { cfg, .. }) = c.ops.get_mut(fi) {
        cfg.fsize_limit = Some(limit);
    }
    let victim = sizes
        .iter()
        .find(|x| x.2 as u64 > limit)
        .map(|x| x.0.clone())
        .unwrap_or_default();
    Some((c, max as u64 > limit, victim))
}

pub fn run(case: &Case, ctx: &mut Ctx) -> CaseOutcome {
    let mut out = CaseOutcome::default();
    let is_f8 = case.params.get("fault").map(|s| s == "F8-fsize-limit").unwrap_or(false);
    let mut f8_expect: Option<(bool, String)> = None;
    let resolved;
    let case = if is_f8 {
        match resolve_fsize(case, ctx) {
            Some((c, exp, victim)) => {
                f8_expect = Some((exp, victim));
                resolved = c;
                &resolved
            }
            None => {
                ctx.stats.count("skipped.f8_not_applicable");
                return out;
            }
        }
    } else {
        case
    };
    let mut rec = case.clone();
    let h = exec(case, ctx, &mut rec);
    out.poisoned = h.poisoned;
    if let Some(d) = &h.diverged {
        out.harness_error = Some(format!("replay divergence: {d}"));
        return out;
    }
    out.recorded = Some(rec);
    let mut dig = vec![];
    for r in &h.runs {
        dig.push(r.sim.log_hash());
        dig.push(tree::snap_hash(&r.after));
        out.trace.push(format!("--- {} ({}) verdict {}", r.label, r.cfg.mode.name(), r.sim.verdict.short()));
        out.trace.extend(tail(&r.sim.log, 40));
    }
    out.digest = mix(&dig);
    let fault = case.params.get("fault").cloned().unwrap_or_default();
    let faulty = case.params.get("faulty").cloned().unwrap_or_default();
    let last = match h.runs.iter().rev().find(|r| r.label == "faulted-run") {
        Some(r) => r,
        _ => return out,
    };
    let retry = h.runs.iter().find(|r| r.label == "retry-after-fault");
    if h.poisoned {
        // "the run returns an error" includes returning at all
        if let Some(hg) = &last.sim.hang {
            out.violate("C04", "hang-on-fault", format!("[{}] {hg}", case.variant));
        }
        return out;
    }
    // judge on the tree as it was when the faulted run started
    let p_before = tree::to_project(&last.before);
    let a = analyze(&p_before);
    let named = match gen::r_inputs(&p_before, &a, &last.cfg.base, &last.cfg.inputs, last.cfg.recursive) {
        Resolved::Sources(s) => s,
        Resolved::Error(_) => return out,
    };
    let req = if last.cfg.mode == ModeS::Clean { named.clone() } else { a.closure(&named) };
    let fi = a.by_path.get(&faulty).copied();
    let planted = case.params.get("planted").map(|s| s == "true").unwrap_or(false);
    let mut required_fault = planted && fi.map(|i| req.contains(&i)).unwrap_or(false);
    let mut faulty = faulty;
    // must-fire conditions (DESIGN.md section 5, C04 table)
    if fault == "F9-tampered-output" && h.tampers_applied == 0 {
        // nothing to flip / delete / truncate in an empty output
        required_fault = false;
        ctx.stats.count("fault.F9_not_applicable_to_empty_output");
    }
    if (fault == "F6-output-dev-full" || (fault == "F5a-output-is-directory" && last.cfg.mode == ModeS::Verify)) && required_fault {
        // an empty output never writes, so a full device is not a fault for it; and verifying an
        // empty output against a directory depends on the size the file system reports for it
        if let Some(i) = fi {
            let good: BTreeSet<usize> = [i].into_iter().collect();
            tree::plant(&ctx.env.ref_root, &project_with_writes(case));
            let r = crate::env::rseq(
                ctx.env,
                &ctx.env.ref_root,
                &a,
                &a.closure(&good),
                &last.cfg.base,
                txtpp::Mode::Build,
                last.cfg.trailing_newline,
                &last.cfg.shell,
            );
            let empty = r.files.get(&a.sources[i].out).map(|b| b.is_empty()).unwrap_or(false);
            if empty {
                required_fault = false;
                ctx.stats.count("fault.F6_F5a_not_applicable_to_empty_output");
            }
        }
    }
    if let Some((exp, victim)) = &f8_expect {
        // the limit is a fault exactly when some product of the closure is longer than it
        required_fault = *exp;
        if *exp {
            faulty = victim.clone();
            ctx.stats.count("fault.F8_limit_below_a_product");
        } else {
            ctx.stats.count("fault.F8_limit_not_reached");
        }
    }
    let fi = a.by_path.get(&faulty).copied().or(fi);
    let pos = fi.map(|i| position_of(&a, i, &req, &named)).unwrap_or("outside");
    let cell = format!("{fault}/{pos}/{}", last.cfg.mode.name());
    ctx.stats.count(&format!("cell.{cell}"));
    ctx.stats.nontrivial.insert(mix(&[project_hash(&case.project), out.digest]));
    if last.sim.verdict.is_err() && required_fault {
        ctx.stats.count(&format!("fault.fired.{fault}"));
    }
    if let Verdict::Err(e) = &last.sim.verdict {
        if e.contains("No space left") {
            ctx.stats.count("probe.F6_enospc_surfaced");
        }
    }
    if last.sim.n_tasks >= 2 && last.sim.verdict.is_err() && last.sim.probes.contains_key("error_received_with_tasks_in_flight") {
        ctx.stats.count("probe.error_with_tasks_in_flight_drop_drains");
    }
    match &last.sim.verdict {
        Verdict::Ok => {
            if required_fault {
                out.violate(
                    "C04",
                    "false-success",
                    format!(
                        "[{cell}] {} reported success although required file {faulty} carries fault {fault}",
                        last.cfg.mode.name()
                    ),
                );
            } else if matches!(last.cfg.mode, ModeS::Build | ModeS::Needed) {
                // success => every product of the closure is complete and correct
                let good: BTreeSet<usize> = req.difference(&a.bad()).copied().collect();
                tree::plant(&ctx.env.ref_root, &non_generated(&last.before, &a));
                // environment faults (symlinks, directories) are part of the tree: keep them
                let r = crate::env::rseq(
                    ctx.env,
                    &ctx.env.ref_root,
                    &a,
                    &good,
                    &last.cfg.base,
                    txtpp::Mode::Build,
                    last.cfg.trailing_newline,
                    &last.cfg.shell,
                );
                for i in &good {
                    if let Some(m) = compare_generated(&a, *i, &last.after, &r) {
                        out.violate("C04", "success-with-wrong-output", format!("[{cell}] {m}"));
                        break;
                    }
                }
                ctx.stats.count("c04.ok_runs_checked_against_reference");
            }
        }
        Verdict::Err(_) => {}
        Verdict::Panic(m) => {
            if required_fault {
                out.violate("C04", "panic-on-fault", format!("[{cell}] coordinator panicked: {m}"));
            }
        }
        Verdict::Hung => {}
    }
    if let (Some(rt), None) = (retry, &out.violation) {
        ctx.stats.count("c04.retries_after_the_fault_was_lifted");
        if let Some(hg) = &rt.sim.hang {
            out.violate("C04", "hang-on-fault", format!("[{cell}] the retry after the fault was lifted: {hg}"));
        } else if rt.sim.verdict.is_ok() {
            let good: BTreeSet<usize> = req.difference(&a.bad()).copied().collect();
            tree::plant(&ctx.env.ref_root, &non_generated(&last.before, &a));
            let r = crate::env::rseq(
                ctx.env,
                &ctx.env.ref_root,
                &a,
                &good,
                &rt.cfg.base,
                txtpp::Mode::Build,
                rt.cfg.trailing_newline,
                &rt.cfg.shell,
            );
            if r.all_ok(&good) {
                for i in &good {
                    if let Some(m) = compare_generated(&a, *i, &rt.after, &r) {
                        out.violate(
                            "C04",
                            "success-with-wrong-output",
                            format!("[{cell}] the same build again after the limit was lifted reports success, but {m}"),
                        );
                        break;
                    }
                }
                ctx.stats.count("c04.ok_retries_checked_against_reference");
            }
        }
    }
    // a sample of cells again through the real binary (OS-scheduled): exit status must agree
    if case.index % 8 == 0 && out.violation.is_none() && !is_f8 {
        tree::restore(&ctx.env.root, &last.before);
        std::env::set_var("VERIF_CLI_STRAY_N", if case.index % 16 == 0 { "1" } else { "0" });
        if let Some(code) = run_cli(&ctx.env.root, &last.cfg) {
            ctx.stats.count("c04.cli_runs");
            let lib_err = last.sim.verdict.is_err();
            if code == -9999 {
                out.violate(
                    "C04",
                    "cli-hang",
                    format!("[{cell}] the txtpp binary did not terminate within 60 s (library verdict {})", last.sim.verdict.short()),
                );
            } else if lib_err && code == 0 {
                out.violate(
                    "C04",
                    "cli-exit-zero-on-failure",
                    format!(
                        "[{cell}] library run failed ({}) but the txtpp binary exited 0",
                        match &last.sim.verdict {
                            Verdict::Err(e) => err_brief(e),
                            _ => String::new(),
                        }
                    ),
                );
            } else if !lib_err && last.sim.verdict.is_ok() && code != 0 {
                out.violate(
                    "C04",
                    "cli-exit-nonzero-on-success",
                    format!("[{cell}] library run succeeded but the txtpp binary exited {code}"),
                );
            }
        }
    }
    if ctx.stats.samples.len() < 4 && case.index % 53 == 0 {
        ctx.stats.samples.push(serde_json::json!({
            "index": case.index,
            "cell": cell,
            "faulty_file": faulty,
            "inputs": last.cfg.inputs,
            "k": last.cfg.k,
            "policy": format!("{:?}", last.sched.policy),
            "verdict": last.sim.verdict.short(),
            "actions": last.sim.actions,
        }));
    }
    out
}

fn non_generated(s: &tree::Snap, a: &Analysis) -> Project {
    let gen = a.gen_all();
    let mut p = tree::to_project(s);
    // keep environment faults (symlinks / directories at generated paths), drop regular files
    p.entries.retain(|e| match e {
        Entry::File { path, .. } => !gen.contains(path),
        _ => true,
    });
    p
}
