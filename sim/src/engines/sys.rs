//! Syscall-level fault engine (part of C04 and C08): the real txtpp binary runs under strace(1),
//! which either kills it (SIGKILL) on entry to the k-th system call of one kind that touches a
//! project path, or makes that call fail with an errno. Every (syscall, k) position of a recorded
//! fault-free run is a fault point; a case enumerates them (sampled above a bound).
//!
//! Determinism: the traced run uses one worker thread (`-j 1`), whose sequence of file system
//! calls is a function of the project (projects in which two dependers wait for the same
//! dependency are not used here: their release order comes from a randomly keyed hash set). The
//! per-tracee counter of strace then makes (project, syscall, k) one exactly repeatable execution.
use super::common::*;
use super::{rng_for, Ctx, Tier};
use crate::gen::{self, Resolved};
use crate::model::*;
use crate::rng::{mix, Rng};
use crate::spec::analyze;
use crate::stats::CaseOutcome;
use crate::tree::{self, Node, Snap};
use std::collections::{BTreeMap, BTreeSet};
use std::path::{Path, PathBuf};
use std::sync::atomic::{AtomicU8, Ordering};

const STRACE: &str = "/usr/bin/strace";
/// system calls whose k-th occurrence is a crash point
const CRASH_CALLS: [&str; 7] = ["openat", "write", "rename", "renameat", "renameat2", "unlink", "unlinkat"];
/// (system call, errno values injected)
const ERRNO_CALLS: [(&str, &[&str]); 9] = [
    ("openat", &["EIO", "EMFILE", "ENOSPC", "EACCES"]),
    ("getdents64", &["EIO", "EACCES"]),
    ("read", &["EIO", "EINTR"]),
    ("write", &["ENOSPC", "EIO", "EINTR", "EDQUOT"]),
    ("unlink", &["EBUSY", "EACCES"]),
    ("unlinkat", &["EBUSY", "EACCES"]),
    ("rename", &["EIO", "EXDEV"]),
    ("renameat", &["EIO", "EXDEV"]),
    ("renameat2", &["EIO", "EXDEV"]),
];
/// calls counted only when they touch a project path (strace -P): the dynamic loader and the
/// runtime open, read and close files of their own on the main thread
const TRACE_FILTERED: &str = "openat,read,write,close,getdents64";
/// calls counted wherever they point (nothing but txtpp's own code renames or unlinks; strace 6.1
/// does not match the target of a plain rename(2) against -P, so a path filter would hide the
/// final step of a staged write)
const TRACE_UNFILTERED: &str = "rename,renameat,renameat2,unlink,unlinkat";

fn unfiltered(call: &str) -> bool {
    TRACE_UNFILTERED.split(',').any(|c| c == call)
}
/// concurrent traced runs per worker process (a run of the binary mostly sleeps in its poll timer)
const LANES: usize = 6;

static AVAILABLE: AtomicU8 = AtomicU8::new(0);

/// strace present and allowed to inject (checked once per process)
pub fn available() -> bool {
    match AVAILABLE.load(Ordering::SeqCst) {
        1 => return true,
        2 => return false,
        _ => {}
    }
    let ok = (|| {
        if !Path::new(STRACE).is_file() {
            return false;
        }
        let mut c = std::process::Command::new(STRACE);
        c.args(["-f", "-o", "/dev/null", "-e", "trace=write", "-e", "inject=write:signal=KILL:when=1", "/bin/sh", "-c", "echo x"])
            .stdin(std::process::Stdio::null())
            .stdout(std::process::Stdio::null())
            .stderr(std::process::Stdio::null());
        // the tracee dies from SIGKILL on its first write: strace then kills itself with the same signal
        matches!(status_with_timeout(&mut c, 30), Ok(Some(c)) if c == -1 || c == 137)
    })();
    AVAILABLE.store(if ok { 1 } else { 2 }, Ordering::SeqCst);
    ok
}

fn sys_opts() -> gen::GraphOpts {
    gen::GraphOpts {
        max_n: 4,
        cyclic: false,
        markers: true,
        probes: false,
        temps: true,
        big: true,
        dotted: super::graph::DOTTED_STEMS,
        absolute: false,
        decoys: false,
        mark_all: false,
        sized: true,
        wide: false,
        mega: false,
        symlinks: false,
        read_above: true,
        scratch_dir: false,
    }
}

pub fn gen(prop: &str, seed: u64, index: u64, _tier: Tier) -> Case {
    let mut prng = rng_for(seed, prop, index, "sys-project");
    let mut rng = rng_for(seed, prop, index, "sys-config");
    let o = sys_opts();
    let mut project = Project::default();
    for _ in 0..40 {
        let n = prng.range(1, 4);
        let e = gen::gen_edges(&mut prng, n, false);
        let p = gen::gen_graph_project(&mut prng, &o, n, &e);
        let a = analyze(&p);
        // no dependency with two dependers (their release order is not a function of the project)
        let mut dependers: BTreeMap<usize, BTreeSet<usize>> = BTreeMap::new();
        for (i, s) in a.sources.iter().enumerate() {
            for d in &s.deps {
                dependers.entry(d.target).or_default().insert(i);
            }
        }
        project = p;
        if dependers.values().all(|v| v.len() <= 1) {
            break;
        }
    }
    let a = analyze(&project);
    let (inputs, recursive) = gen::gen_inputs(&mut prng, &a, false);
    let mut params = BTreeMap::new();
    // C09 has both kinds (crash twins, and errno cases for "nothing correct is rewritten")
    // C10: every third syscall-level case is a kill (the write-set rule holds at every crash point)
    let kind = if prop == "C08" || (prop == "C09" && index % 120 < 60) || (prop == "C10" && (index / 60) % 3 == 1) { "crash" } else { "errno" };
    let mode = if kind == "crash" && prop == "C10" {
        *rng.pick(&["build", "needed", "verify-fresh", "clean"])
    } else if kind == "crash" {
        // any interrupted run, not only a build, may have left the tree as it is
        *rng.pick(&["build", "build", "build", "needed", "needed", "verify-fresh", "clean"])
    } else if prop == "C09" {
        *rng.pick(&["build", "needed", "needed", "verify-fresh"])
    } else if prop == "C10" {
        *rng.pick(&["build", "needed", "verify-fresh", "verify-fresh", "clean", "clean", "clean"])
    } else {
        // verify-stale: verify over a tree that was built from an earlier version of one source
        *rng.pick(&["build", "build", "needed", "needed", "verify-fresh", "verify-tampered", "verify-stale", "clean"])
    };
    params.insert("sys".into(), kind.into());
    params.insert("mode".into(), mode.into());
    params.insert("inputs".into(), serde_json::to_string(&inputs).unwrap());
    params.insert("recursive".into(), format!("{recursive}"));
    params.insert("tn".into(), format!("{}", !rng.chance(1, 6)));
    // what lies at the generated paths when the faulted run starts
    params.insert(
        "pre".into(),
        (*rng.pick(if prop == "C09" && kind == "errno" {
            // everything is up to date: nothing may be rewritten
            &["built"][..]
        } else if mode == "verify-stale" {
            &["built-edited"][..]
        } else if mode == "build" || mode == "needed" {
            &["pristine", "pristine", "built", "built-edited"][..]
        } else if mode == "clean" && prop == "C10" {
            // clean of a tree that was never built, too: nothing to remove, nothing to create
            &["built", "pristine"][..]
        } else {
            &["built"][..]
        }))
        .into(),
    );
    params.insert("repair".into(), (*rng.pick(&["build", "build", "needed-build"])).into());
    params.insert("repair_k".into(), format!("{}", *rng.pick(&[1usize, 2, 4, 8])));
    params.insert("points".into(), format!("auto:{}", rng.next()));
    Case {
        property: prop.to_string(),
        variant: format!("sys-{kind}"),
        seed,
        index,
        project,
        ops: vec![],
        params,
    }
}

#[derive(Clone, Debug)]
struct Point {
    call: String,
    k: usize,
    /// errno name, or "KILL"
    what: String,
}

impl Point {
    fn spell(&self) -> String {
        format!("{}:{}:{}", self.call, self.k, self.what)
    }
    fn parse(s: &str) -> Option<Point> {
        let mut it = s.split(':');
        Some(Point {
            call: it.next()?.to_string(),
            k: it.next()?.parse().ok()?,
            what: it.next()?.to_string(),
        })
    }
}

struct Lane {
    dir: PathBuf,
    root: PathBuf,
    vlog: PathBuf,
}

impl Lane {
    fn new(scratch: &Path, i: usize) -> Lane {
        let dir = scratch.join("sys").join(format!("{i}"));
        let l = Lane {
            root: dir.join("p"),
            vlog: dir.join("vlog"),
            dir,
        };
        let _ = std::fs::create_dir_all(&l.root);
        l
    }
    fn reset(&self, image: &Snap) {
        let _ = std::fs::remove_dir_all(&self.vlog);
        let _ = std::fs::create_dir_all(&self.vlog);
        tree::restore(&self.root, image);
    }
}

struct Inv {
    mode: ModeS,
    inputs: Vec<String>,
    recursive: bool,
    tn: bool,
    k: usize,
}

fn cli_args(root: &Path, inv: &Inv) -> Vec<String> {
    let mut v: Vec<String> = vec![];
    match inv.mode {
        ModeS::Verify => v.push("verify".into()),
        ModeS::Clean => v.push("clean".into()),
        ModeS::Needed => v.push("-N".into()),
        ModeS::Build => {}
    }
    v.push("-q".into());
    v.push("-j".into());
    v.push(format!("{}", inv.k.max(1)));
    if inv.recursive {
        v.push("-r".into());
    }
    if inv.mode != ModeS::Clean && !inv.tn {
        v.push("-n".into());
    }
    v.push("--".into());
    for i in &inv.inputs {
        v.push(i.replace("@ROOT@", &root.display().to_string()));
    }
    v
}

fn cli_exe() -> PathBuf {
    std::env::var("VERIF_CLI")
        .map(PathBuf::from)
        .unwrap_or_else(|_| crate::driver::verif_dir().join("sim/target-cli/release/txtpp"))
}

/// Plain run of the binary in the lane. Some(-9999) = no termination within a minute.
fn run_plain(l: &Lane, inv: &Inv) -> Option<i32> {
    let mut c = std::process::Command::new(cli_exe());
    c.current_dir(&l.root)
        .env_remove("TXTPP_FILE")
        .env("RUST_BACKTRACE", "0")
        .env("VLOG", &l.vlog)
        .args(cli_args(&l.root, inv))
        .stdin(std::process::Stdio::null())
        .stdout(std::process::Stdio::null())
        .stderr(std::process::Stdio::null());
    match status_with_timeout(&mut c, 60) {
        Ok(Some(code)) => Some(code),
        Ok(None) => Some(-9999),
        Err(_) => None,
    }
}

/// Run under strace; `inject` = None records only. `filtered` selects the call family (see
/// TRACE_FILTERED / TRACE_UNFILTERED). Returns (exit code, strace log).
fn run_traced(l: &Lane, inv: &Inv, paths: &[PathBuf], inject: Option<&Point>, filtered: bool) -> Option<(i32, String)> {
    let log = l.dir.join("strace.log");
    let _ = std::fs::remove_file(&log);
    let mut c = std::process::Command::new(STRACE);
    c.arg("-f").arg("-b").arg("execve").arg("-o").arg(&log);
    if filtered {
        c.arg("-e").arg(format!("trace={TRACE_FILTERED}"));
        for p in paths {
            c.arg("-P").arg(p);
        }
    } else {
        c.arg("-e").arg(format!("trace={TRACE_UNFILTERED}"));
    }
    if let Some(pt) = inject {
        let what = if pt.what == "KILL" {
            "signal=KILL".to_string()
        } else {
            format!("error={}", pt.what)
        };
        c.arg("-e").arg(format!("inject={}:{}:when={}", pt.call, what, pt.k));
    }
    c.arg(cli_exe());
    c.args(cli_args(&l.root, inv));
    c.current_dir(&l.root)
        .env_remove("TXTPP_FILE")
        .env("RUST_BACKTRACE", "0")
        .env("VLOG", &l.vlog)
        .stdin(std::process::Stdio::null())
        .stdout(std::process::Stdio::null())
        .stderr(std::process::Stdio::null());
    let code = match status_with_timeout(&mut c, 90) {
        Ok(Some(code)) => code,
        Ok(None) => -9999,
        Err(_) => return None,
    };
    let text = std::fs::read_to_string(&log).unwrap_or_default();
    Some((code, text))
}

/// Per thread: how often each traced call occurs in a strace log.
fn count_calls(log: &str) -> BTreeMap<String, BTreeMap<String, usize>> {
    let mut m: BTreeMap<String, BTreeMap<String, usize>> = BTreeMap::new();
    for line in log.lines() {
        let mut it = line.split_whitespace();
        let tid = match it.next() {
            Some(t) if t.chars().all(|c| c.is_ascii_digit()) => t,
            _ => continue,
        };
        let rest = match it.next() {
            Some(r) => r,
            None => continue,
        };
        if let Some((name, _)) = rest.split_once('(') {
            if name.chars().all(|c| c.is_ascii_alphanumeric() || c == '_') && !name.is_empty() {
                *m.entry(tid.to_string()).or_default().entry(name.to_string()).or_insert(0) += 1;
            }
        }
    }
    m
}

fn trace_paths(root: &Path, image: &Snap, a: &crate::spec::Analysis) -> Vec<PathBuf> {
    let mut set: BTreeSet<String> = BTreeSet::new();
    for (p, n) in image {
        if matches!(n, Node::File { .. }) {
            set.insert(p.clone());
        }
    }
    for g in a.gen_all() {
        set.insert(g);
    }
    // directories: scans read them (getdents64 on a descriptor of the directory)
    let mut dirs: BTreeSet<String> = BTreeSet::new();
    dirs.insert(String::new());
    for (p, n) in image {
        if matches!(n, Node::Dir) {
            dirs.insert(p.clone());
        }
    }
    // staging names a changed tree might use beside a generated path are not known: only the
    // paths of the project and its generated files count as fault positions
    let mut v: Vec<PathBuf> = set.into_iter().take(200).map(|p| root.join(tree::osp(&p))).collect();
    for d in dirs.into_iter().take(40) {
        v.push(if d.is_empty() { root.to_path_buf() } else { root.join(tree::osp(&d)) });
    }
    v
}

struct PointResult {
    point: Point,
    fired: bool,
    code: i32,
    /// the lane's tree right before the faulted run (inodes and time stamps of this lane)
    before: Snap,
    after: Snap,
    repair_codes: Vec<i32>,
    repaired: Option<Snap>,
    twin_needed: Option<Snap>,
}

pub fn run(case: &Case, ctx: &mut Ctx) -> CaseOutcome {
    let mut out = CaseOutcome::default();
    out.recorded = Some(case.clone());
    out.digest = mix(&[project_hash(&case.project), crate::rng::hash_str(&format!("{:?}", case.params))]);
    if !available() {
        ctx.stats.count("sys.strace_unavailable");
        return out;
    }
    let prop = case.property.as_str();
    let kind = case.params.get("sys").cloned().unwrap_or_default();
    let mode_s = case.params.get("mode").cloned().unwrap_or_else(|| "build".into());
    let inputs: Vec<String> = case
        .params
        .get("inputs")
        .and_then(|s| serde_json::from_str(s).ok())
        .unwrap_or_else(|| vec![".".to_string()]);
    let recursive = case.params.get("recursive").map(|s| s == "true").unwrap_or(true);
    let tn = case.params.get("tn").map(|s| s == "true").unwrap_or(true);
    let pre = case.params.get("pre").cloned().unwrap_or_else(|| "pristine".into());
    let repair = case.params.get("repair").cloned().unwrap_or_else(|| "build".into());
    let repair_k: usize = case.params.get("repair_k").and_then(|s| s.parse().ok()).unwrap_or(1);
    let mode = match mode_s.as_str() {
        "needed" => ModeS::Needed,
        "verify-fresh" | "verify-tampered" | "verify-stale" => ModeS::Verify,
        "clean" => ModeS::Clean,
        _ => ModeS::Build,
    };
    let a = analyze(&case.project);
    let named = match gen::r_inputs(&case.project, &a, "", &inputs, recursive) {
        Resolved::Sources(s) => s,
        Resolved::Error(_) => {
            ctx.stats.count("sys.skipped.inputs_do_not_resolve");
            return out;
        }
    };
    let req = if mode == ModeS::Clean { named.clone() } else { a.closure(&named) };
    let products: BTreeSet<String> = req.iter().flat_map(|i| a.sources[*i].generated()).collect();
    let lanes: Vec<Lane> = (0..LANES + 1).map(|i| Lane::new(&ctx.env.scratch, i)).collect();
    let l0 = &lanes[LANES];
    let build_inv = |m: ModeS, k: usize| Inv {
        mode: m,
        inputs: inputs.clone(),
        recursive,
        tn,
        k,
    };

    // reference: the plain build of the sources from a pristine tree
    tree::plant(&l0.root, &case.project);
    let pristine = tree::snapshot(&l0.root);
    l0.reset(&pristine);
    let ref_code = match run_plain(l0, &build_inv(ModeS::Build, 1)) {
        Some(c) => c,
        None => {
            out.harness_error = Some("cannot start the txtpp binary".into());
            return out;
        }
    };
    let reference = tree::snapshot(&l0.root);
    ctx.stats.count(if ref_code == 0 { "sys.reference_builds.ok" } else { "sys.reference_builds.err" });

    // pre-state of the faulted run
    let image: Snap = match pre.as_str() {
        "pristine" => pristine.clone(),
        "built" => reference.clone(),
        _ => {
            // built from an earlier version of one source: shorter text, other temp bodies
            let mut rng = Rng::new(mix(&[case.seed, case.index, 77]));
            let mut old = case.project.clone();
            if a.n() > 0 {
                let s = &a.sources[rng.below(a.n())];
                if let Some(d) = old.file(&s.path).cloned() {
                    let t = d.lossy().replace("temp body", "temp body of the earlier version, longer than now");
                    // verify-stale: where a temp body changed, nothing else did (a fresh output that
                    // is computed from a temp file left as it was then equals the stored one)
                    let t = if mode_s == "verify-stale" && t != d.lossy() { t } else { format!("earlier first line\n{t}") };
                    old.set_file(&s.path, B(t.into_bytes()));
                }
            }
            tree::plant(&l0.root, &old);
            let _ = std::fs::remove_dir_all(&l0.vlog);
            let _ = std::fs::create_dir_all(&l0.vlog);
            let _ = run_plain(l0, &build_inv(ModeS::Build, 1));
            // the sources get their final text back
            for (p, d) in case.project.files() {
                let _ = std::fs::write(l0.root.join(tree::osp(p)), &d.0);
            }
            tree::snapshot(&l0.root)
        }
    };
    let mut image = image;
    let mut tampered = false;
    if mode_s == "verify-tampered" && ref_code == 0 {
        // one stored output of the required closure differs from the fresh one
        let mut rng = Rng::new(mix(&[case.seed, case.index, 78]));
        let outs: Vec<String> = req.iter().map(|i| a.sources[*i].out.clone()).collect();
        if !outs.is_empty() {
            let o = rng.pick(&outs).clone();
            l0.reset(&image);
            let kind = rng.pick(&[TamperKind::Flip, TamperKind::Append, TamperKind::Truncate, TamperKind::Insert]).clone();
            let at = *rng.pick(&[0u32, 500, 1000]);
            if super::history::apply_tamper(&l0.root, &o, &kind, at) {
                let now = tree::snapshot(&l0.root);
                if tree::file_bytes(&now, &o) != tree::file_bytes(&image, &o) {
                    tampered = true;
                    image = now;
                }
            }
        }
    }
    if mode_s == "verify-stale" && ref_code == 0 {
        // some stored output of the required closure is not what the sources now give
        let stale = req.iter().any(|i| {
            let o = &a.sources[*i].out;
            tree::file_bytes(&image, o) != tree::file_bytes(&reference, o)
        });
        if stale {
            tampered = true;
            ctx.stats.count("sys.verify_over_stale_tree");
        }
    }
    let inv = build_inv(mode, 1);

    // recorded fault-free run: where the fault points are
    l0.reset(&image);
    let paths0 = trace_paths(&l0.root, &image, &a);
    let (rec_code, rec_log) = match run_traced(l0, &inv, &paths0, None, true) {
        Some(x) => x,
        None => {
            ctx.stats.count("sys.strace_unavailable");
            return out;
        }
    };
    let counts = count_calls(&rec_log);
    // the worker thread is the tracee with the most calls on project paths
    let mut worker = counts.values().max_by_key(|m| m.values().sum::<usize>()).cloned().unwrap_or_default();
    // recorded twice: the sequence of calls must be a function of the case, or (project, call, k)
    // would not be one repeatable execution
    l0.reset(&image);
    if let Some((_, again)) = run_traced(l0, &inv, &paths0, None, true) {
        let w2 = count_calls(&again).values().max_by_key(|m| m.values().sum::<usize>()).cloned().unwrap_or_default();
        if w2 != worker {
            ctx.stats.count("sys.skipped.recording_not_repeatable");
            return out;
        }
        ctx.stats.count("sys.recordings_repeated_identically");
    }
    l0.reset(&image);
    if let Some((_, log2)) = run_traced(l0, &inv, &paths0, None, false) {
        let c2 = count_calls(&log2);
        if let Some(w2) = c2.values().max_by_key(|m| m.values().sum::<usize>()) {
            for (k, v) in w2 {
                worker.insert(k.clone(), *v);
            }
        }
    }
    ctx.stats.count(&format!("sys.recorded_runs.{}", mode.name()));
    let mut points: Vec<Point> = vec![];
    let spec = case.params.get("points").cloned().unwrap_or_default();
    let limit = 18usize;
    if let Some(seed) = spec.strip_prefix("auto:") {
        let mut rng = Rng::new(seed.parse().unwrap_or(1));
        let mut all: Vec<Point> = vec![];
        if kind == "crash" {
            for c in CRASH_CALLS {
                for k in 1..=worker.get(c).copied().unwrap_or(0) {
                    all.push(Point {
                        call: c.to_string(),
                        k,
                        what: "KILL".into(),
                    });
                }
            }
        } else {
            for (c, errs) in ERRNO_CALLS {
                for k in 1..=worker.get(c).copied().unwrap_or(0) {
                    all.push(Point {
                        call: c.to_string(),
                        k,
                        what: (*rng.pick(errs)).to_string(),
                    });
                }
            }
        }
        ctx.stats.add("sys.fault_points_available", all.len() as u64);
        // stratified over the system calls: reads and opens would otherwise crowd out the writes
        let mut by_call: BTreeMap<String, Vec<Point>> = BTreeMap::new();
        for p in all {
            by_call.entry(p.call.clone()).or_default().push(p);
        }
        for v in by_call.values_mut() {
            rng.shuffle(v);
        }
        let mut order: Vec<String> = by_call.keys().cloned().collect();
        rng.shuffle(&mut order);
        while points.len() < limit && by_call.values().any(|v| !v.is_empty()) {
            for c in &order {
                if points.len() >= limit {
                    break;
                }
                if let Some(p) = by_call.get_mut(c).and_then(|v| v.pop()) {
                    points.push(p);
                }
            }
        }
    } else {
        for s in spec.split(';') {
            if let Some(p) = Point::parse(s) {
                points.push(p);
            }
        }
    }
    if points.is_empty() {
        ctx.stats.count("sys.cases_without_fault_point");
        return out;
    }

    // the points, LANES at a time
    let results: Vec<PointResult> = {
        let queue = std::sync::Mutex::new(points.clone().into_iter().rev().collect::<Vec<Point>>());
        let res = std::sync::Mutex::new(Vec::<PointResult>::new());
        std::thread::scope(|sc| {
            for l in lanes.iter().take(LANES) {
                let (queue, res, image, a, inv) = (&queue, &res, &image, &a, &inv);
                let (kind, repair, inputs) = (kind.clone(), repair.clone(), inputs.clone());
                let twin = prop == "C09";
                let write_set_only = prop == "C10";
                sc.spawn(move || loop {
                    let pt = match queue.lock().unwrap().pop() {
                        Some(p) => p,
                        None => break,
                    };
                    l.reset(image);
                    tree::set_sentinel(&l.root);
                    let before = tree::snapshot(&l.root);
                    let paths = trace_paths(&l.root, image, a);
                    let (code, log) = match run_traced(l, inv, &paths, Some(&pt), !unfiltered(&pt.call)) {
                        Some(x) => x,
                        None => continue,
                    };
                    let fired = if pt.what == "KILL" { log.contains("killed by SIGKILL") } else { log.contains("(INJECTED)") };
                    let after = tree::snapshot(&l.root);
                    let mut repair_codes = vec![];
                    let mut repaired = None;
                    let mut twin_needed = None;
                    if kind == "crash" && fired && twin {
                        // C09: from the tree the kill left, --needed and a normal build agree
                        let mk = |m: ModeS| Inv {
                            mode: m,
                            inputs: inputs.clone(),
                            recursive,
                            tn,
                            k: repair_k,
                        };
                        repair_codes.push(run_plain(l, &mk(ModeS::Needed)).unwrap_or(-1));
                        twin_needed = Some(tree::snapshot(&l.root));
                        l.reset(&after);
                        repair_codes.push(run_plain(l, &mk(ModeS::Build)).unwrap_or(-1));
                        repaired = Some(tree::snapshot(&l.root));
                    } else if kind == "crash" && fired && !write_set_only {
                        let mk = |m: ModeS| Inv {
                            mode: m,
                            inputs: inputs.clone(),
                            recursive,
                            tn,
                            k: repair_k,
                        };
                        if repair == "needed-build" {
                            repair_codes.push(run_plain(l, &mk(ModeS::Needed)).unwrap_or(-1));
                        }
                        repair_codes.push(run_plain(l, &mk(ModeS::Build)).unwrap_or(-1));
                        repaired = Some(tree::snapshot(&l.root));
                    }
                    res.lock().unwrap().push(PointResult {
                        point: pt,
                        fired,
                        code,
                        before,
                        after,
                        repair_codes,
                        repaired,
                        twin_needed,
                    });
                });
            }
        });
        res.into_inner().unwrap()
    };

    let mut results = results;
    results.sort_by_key(|r| (r.point.call.clone(), r.point.k));
    for r in &results {
        if !r.fired {
            ctx.stats.count("sys.points_not_reached");
            continue;
        }
        ctx.stats.count(&format!("fault.sys.{}.{}", r.point.call, r.point.what));
        ctx.stats.nontrivial.insert(mix(&[out.digest, crate::rng::hash_str(&r.point.spell())]));
        let mut fail: Option<(&str, String)> = None;
        let at = format!("{} of {} #{} ({} run, -j 1, pre-state {pre})", r.point.what, r.point.call, r.point.k, mode_s);
        if kind == "crash" && prop == "C10" {
            // C10: the tree a killed run leaves differs from the tree it found only at generated
            // paths; a killed verify has not touched an output, a killed clean has only removed
            let gen_paths = a.gen_all();
            let outs: BTreeSet<String> = a.sources.iter().map(|s| s.out.clone()).collect();
            for (p, ch) in tree::diff(&r.before, &r.after) {
                let is_dir = matches!(r.before.get(&p), Some(Node::Dir)) || matches!(r.after.get(&p), Some(Node::Dir));
                if is_dir {
                    continue;
                }
                if !gen_paths.contains(&p) {
                    out.violate("C10", "wrote-outside-own-outputs", format!("{at}: {ch:?} {p}, neither an output nor a temp target"));
                } else if mode == ModeS::Verify && outs.contains(&p) {
                    out.violate("C10", "verify-touched-output", format!("{at}: {ch:?} output {p}"));
                } else if mode == ModeS::Clean && ch != tree::Change::Deleted {
                    out.violate("C10", "clean-created-or-modified", format!("{at}: {ch:?} {p}"));
                }
            }
            ctx.stats.count("sys.kill_runs_checked_for_write_set");
        } else if kind == "crash" && prop == "C09" {
            // C09: same verdict and same bytes from --needed as from a normal build
            if let (Some(n), Some(b), [cn, cb]) = (&r.twin_needed, &r.repaired, r.repair_codes.as_slice()) {
                if *cn == -9999 || *cb == -9999 {
                    // a hang is not C09's subject
                } else if (*cn == 0) != (*cb == 0) {
                    out.violate(
                        "C09",
                        "needed-verdict-differs",
                        format!("from the tree left by {at}: --needed exits {cn}, a normal build exits {cb}"),
                    );
                } else if *cb == 0 {
                    for g in &products {
                        if tree::file_bytes(n, g) != tree::file_bytes(b, g) {
                            out.violate(
                                "C09",
                                "needed-bytes-differ",
                                format!(
                                    "from the tree left by {at}: {g} is {:?} after --needed and {:?} after a normal build",
                                    tree::file_bytes(n, g).map(preview),
                                    tree::file_bytes(b, g).map(preview)
                                ),
                            );
                            break;
                        }
                    }
                }
            }
        } else if kind == "crash" {
            // C08: the build after the kill gives what the build from a pristine tree gives
            let last = r.repair_codes.last().copied().unwrap_or(-1);
            if last == -9999 {
                fail = Some(("verdict-depends-on-leftover-state", format!("after {at}: the repairing build did not terminate within a minute")));
            } else if (last == 0) != (ref_code == 0) {
                fail = Some((
                    "verdict-depends-on-leftover-state",
                    format!("build from a pristine tree exits {ref_code}; after {at} the build exits {last} (repair sequence {repair}: {:?})", r.repair_codes),
                ));
            } else if ref_code == 0 {
                if let Some(rep) = &r.repaired {
                    for g in &products {
                        if tree::file_bytes(rep, g) != tree::file_bytes(&reference, g) {
                            fail = Some((
                                "bytes-depend-on-leftover-state",
                                format!(
                                    "{g}: build from a pristine tree gives {:?}; build after {at} gives {:?}",
                                    tree::file_bytes(&reference, g).map(preview),
                                    tree::file_bytes(rep, g).map(preview)
                                ),
                            ));
                            break;
                        }
                    }
                }
            }
            if let Some((class, msg)) = fail {
                out.violate("C08", class, msg);
            }
        } else if prop == "C09" {
            // C09: whatever fails, a generated file whose content was already correct keeps its
            // inode and time stamp (a temp file in every mode, an output under --needed)
            if r.code == 0 && ref_code == 0 {
                ctx.stats.count("sys.errno_runs_succeeded_and_checked");
            }
            for g in &products {
                let is_out = a.sources.iter().any(|s| &s.out == g);
                if is_out && mode != ModeS::Needed {
                    continue;
                }
                let (b, n) = (r.before.get(g), r.after.get(g));
                if let (Some(Node::File { data: d0, ino: i0, mtime: m0 }), Some(Node::File { data: d1, ino: i1, mtime: m1 })) = (b, n) {
                    let was_correct = tree::file_bytes(&reference, g) == Some(d0.as_slice());
                    if was_correct && d0 == d1 && (i0 != i1 || m0 != m1) {
                        out.violate(
                            "C09",
                            if is_out { "needed-rewrote-unchanged-output" } else { "rewrote-unchanged-temp" },
                            format!("{at}: {g} held the right bytes and was written again (exit status {})", r.code),
                        );
                        break;
                    }
                }
            }
        } else if prop == "C10" {
            // C10: whatever the verdict, only generated paths change; verify leaves outputs
            // alone; clean creates and modifies nothing
            let gen_paths = a.gen_all();
            let outs: BTreeSet<String> = a.sources.iter().map(|s| s.out.clone()).collect();
            for (p, ch) in tree::diff(&r.before, &r.after) {
                let is_dir = matches!(r.before.get(&p), Some(Node::Dir)) || matches!(r.after.get(&p), Some(Node::Dir));
                if is_dir {
                    continue;
                }
                if !gen_paths.contains(&p) {
                    out.violate("C10", "wrote-outside-own-outputs", format!("{at}: {ch:?} {p}, neither an output nor a temp target"));
                } else if mode == ModeS::Verify && outs.contains(&p) {
                    out.violate("C10", "verify-touched-output", format!("{at}: {ch:?} output {p} (exit status {})", r.code));
                } else if mode == ModeS::Clean && ch != tree::Change::Deleted {
                    out.violate("C10", "clean-created-or-modified", format!("{at}: {ch:?} {p} (exit status {})", r.code));
                }
            }
            ctx.stats.count("sys.errno_runs_succeeded_and_checked");
        } else {
            // C04: success is only reported when everything is complete and correct
            if r.code == -9999 {
                fail = Some(("hang-on-fault", format!("{at}: the binary did not terminate")));
            } else if r.code == 0 {
                match mode {
                    ModeS::Build | ModeS::Needed => {
                        if ref_code != 0 {
                            fail = Some(("false-success", format!("{at}: exit 0, but the fault-free build of these sources fails")));
                        } else {
                            for g in &products {
                                if tree::file_bytes(&r.after, g) != tree::file_bytes(&reference, g) {
                                    fail = Some((
                                        "false-success",
                                        format!(
                                            "{at}: exit 0, but {g} is {:?} instead of {:?}",
                                            tree::file_bytes(&r.after, g).map(preview),
                                            tree::file_bytes(&reference, g).map(preview)
                                        ),
                                    ));
                                    break;
                                }
                            }
                        }
                    }
                    ModeS::Verify => {
                        if tampered || ref_code != 0 {
                            fail = Some(("false-success", format!("{at}: verify exits 0 although a stored output differs from the fresh one")));
                        }
                    }
                    ModeS::Clean => {
                        // outputs only: clean mode deliberately ignores every error of a temp
                        // directive, a failed removal included (pp/mod.rs execute_directive), and
                        // the property's list of failures does not name removals of temp files
                        let outs: BTreeSet<String> = req.iter().map(|i| a.sources[*i].out.clone()).collect();
                        for g in &outs {
                            if matches!(r.after.get(g), Some(Node::File { .. })) {
                                fail = Some(("false-success", format!("{at}: clean exits 0 but left {g}")));
                                break;
                            }
                        }
                    }
                }
            } else {
                ctx.stats.count("sys.errno_runs_reported_failure");
            }
            if r.code == 0 {
                ctx.stats.count("sys.errno_runs_succeeded_and_checked");
            }
            if let Some((class, msg)) = fail {
                out.violate("C04", class, msg);
            }
        }
        if out.violation.is_some() {
            // the recorded case holds this one point only
            let mut rec = case.clone();
            rec.params.insert("points".into(), r.point.spell());
            out.recorded = Some(rec);
            out.trace.push(format!("fault-free recorded run exits {rec_code}; reference build exits {ref_code}"));
            out.trace.push(format!("faulted run exits {}", r.code));
            break;
        }
    }
    if ctx.stats.samples.len() < 5 && !ctx.stats.samples.iter().any(|s| s.get("syscall_level").is_some()) {
        ctx.stats.samples.push(serde_json::json!({
            "syscall_level": kind,
            "index": case.index,
            "mode": mode_s,
            "pre_state": pre,
            "inputs": inputs,
            "sources": a.sources.iter().map(|s| s.path.clone()).collect::<Vec<_>>(),
            "calls_of_the_worker_thread_in_the_recorded_run": worker,
            "reference_build_exit": ref_code,
            "points": results.iter().map(|r| format!(
                "{} -> {} exit {}{}",
                r.point.spell(),
                if r.fired { "fired" } else { "not reached" },
                r.code,
                if r.repair_codes.is_empty() { String::new() } else { format!(", then {:?}", r.repair_codes) }
            )).collect::<Vec<_>>(),
        }));
    }
    let _ = prop;
    ctx.stats.count(&format!("sys.cases.{kind}"));
    for l in &lanes {
        let _ = std::fs::remove_dir_all(&l.dir);
    }
    out
}
