//! History engine: a seeded sequence of operations on one scratch tree, each txtpp invocation a
//! simulated run under its own seeded schedule. Serves C06, C07, C08, C09, C10.
use super::common::*;
use super::{rng_for, Ctx, Tier};
use crate::ctl::{SimOut, Verdict};
use crate::env::{rseq, RSeq};
use crate::gen::{self, GraphOpts, Resolved};
use crate::model::*;
use crate::rng::{mix, Rng};
use crate::spec::{analyze, Analysis};
use crate::stats::CaseOutcome;
use crate::tree::{self, Change, Node, Snap};
use std::collections::{BTreeMap, BTreeSet};

pub struct RunRec {
    pub op_index: usize,
    pub cfg: RunCfg,
    pub sched: Sched,
    pub label: String,
    pub before: Snap,
    pub after: Snap,
    pub sim: SimOut,
    pub markers: BTreeMap<String, usize>,
    pub vlog_files: usize,
}

pub struct Hist {
    /// number of tamper operations that really changed a file
    pub tampers_applied: usize,
    pub runs: Vec<RunRec>,
    pub poisoned: bool,
    pub diverged: Option<String>,
    pub crash_images: u64,
    pub crash_in_flight: u64,
    pub torn_files: u64,
}

pub fn apply_tamper(root: &std::path::Path, path: &str, kind: &TamperKind, at: u32) -> bool {
    let p = root.join(crate::tree::osp(path));
    if *kind == TamperKind::Remove {
        return std::fs::remove_file(&p).is_ok();
    }
    let mut data = match std::fs::read(&p) {
        Ok(d) => d,
        Err(_) => return false,
    };
    let len = data.len();
    let pos = if len == 0 {
        0
    } else {
        ((at as usize) * (len - 1) / 1000).min(len - 1)
    };
    match kind {
        TamperKind::LossyTwin => {
            if len == 0 {
                return false;
            }
            match data.windows(3).position(|w| w == [0xEF, 0xBF, 0xBD]) {
                Some(i) => data[i] = 0xF0,
                None => data[pos] ^= 0x01,
            }
        }
        TamperKind::Flip => {
            if len == 0 {
                return false;
            }
            data[pos] ^= 0x01;
        }
        TamperKind::Insert => data.insert(pos.min(len), b'X'),
        TamperKind::Delete => {
            if len == 0 {
                return false;
            }
            data.remove(pos);
        }
        TamperKind::Append => data.push(b'\n'),
        TamperKind::Truncate => {
            if len == 0 {
                return false;
            }
            data.truncate(pos);
        }
        TamperKind::Remove => {}
        TamperKind::CrlfFirst => match data.iter().position(|b| *b == b'\n') {
            Some(i) if i > 0 && data[i - 1] == b'\r' => {
                data.remove(i - 1);
            }
            Some(i) => data.insert(i, b'\r'),
            None => return false,
        },
    }
    // keep the inode (in-place rewrite) so that only content changes
    std::fs::write(&p, data).is_ok()
}

/// Execute the operations of a case in the main tree.
pub fn exec(case: &Case, ctx: &mut Ctx, rec: &mut Case) -> Hist {
    let env = ctx.env;
    tree::plant(&env.root, &case.project);
    let mut h = Hist {
        tampers_applied: 0,
        runs: vec![],
        poisoned: false,
        diverged: None,
        crash_images: 0,
        crash_in_flight: 0,
        torn_files: 0,
    };
    let mut checkpoint: Option<Snap> = None;
    let mut last_snaps: Vec<Snap> = vec![];
    let mut last_log: Vec<String> = vec![];
    let shape = analyze(&case.project).shape_hash();
    for (oi, op) in case.ops.iter().enumerate() {
        match op {
            Op::Run { cfg, sched, label } => {
                let want_snaps = matches!(case.ops.get(oi + 1), Some(Op::CrashImage { .. }));
                // tasks that outlive this run (never on a tree whose Drop joins the pool) are
                // kept parked for the next run of the history instead of being let go at once
                let later_run = case.ops[oi + 1..].iter().any(|o| matches!(o, Op::Run { .. }));
                crate::ctl::hold_stragglers(later_run && !want_snaps);
                let before = tree::snapshot(&env.root);
                env.clear_run_vlog();
                let sim = env.run(cfg, sched, want_snaps);
                ctx.stats.sim(shape, sched, &sim);
                ctx.stats.count(&format!("mode.{}", cfg.mode.name()));
                let after = tree::snapshot(&env.root);
                record_script(rec, oi, &sim.actions);
                let vlog_files = std::fs::read_dir(&env.vlog).map(|r| r.count()).unwrap_or(0);
                let markers = env.markers();
                last_snaps = sim.snaps.clone();
                last_snaps.push(after.clone());
                last_log = sim.log.clone();
                let poisoned = sim.poisoned;
                let div = sim.diverged.clone();
                h.runs.push(RunRec {
                    op_index: oi,
                    cfg: cfg.clone(),
                    sched: sched.clone(),
                    label: label.clone(),
                    before,
                    after,
                    sim,
                    markers,
                    vlog_files,
                });
                if poisoned {
                    h.poisoned = true;
                    h.diverged = div;
                    crate::ctl::hold_stragglers(false);
                    crate::ctl::drain_stragglers();
                    return h;
                }
            }
            Op::Write { path, data } => {
                let p = env.root.join(crate::tree::osp(path));
                if p.parent().map(|d| d.is_dir()).unwrap_or(false) && !p.is_dir() {
                    let _ = std::fs::write(&p, &data.0);
                }
            }
            Op::Remove { path } => {
                let _ = std::fs::remove_file(env.root.join(crate::tree::osp(path)));
            }
            Op::Tamper { path, kind, at } => {
                if apply_tamper(&env.root, path, kind, *at) {
                    h.tampers_applied += 1;
                    ctx.stats.count(&format!("fault.F9_tamper.{kind:?}"));
                }
            }
            Op::Plant { entry } => {
                let p = env.root.join(crate::tree::osp(entry.path()));
                if p.is_dir() && !p.is_symlink() {
                    let _ = std::fs::remove_dir_all(&p);
                } else {
                    let _ = std::fs::remove_file(&p);
                }
                tree::plant_entry(&env.root, entry);
            }
            Op::Sentinel => tree::set_sentinel(&env.root),
            Op::Touch { path, days } => {
                tree::set_mtime(&env.root.join(crate::tree::osp(path)), tree::SENTINEL_SECS + days * 86400);
            }
            Op::Checkpoint => checkpoint = Some(tree::snapshot(&env.root)),
            Op::Rollback => {
                if let Some(s) = &checkpoint {
                    tree::restore(&env.root, s);
                    tree::set_sentinel(&env.root);
                }
            }
            Op::CrashImage { step, torn, writing } => {
                if last_snaps.len() < 2 {
                    continue;
                }
                // state before action `step`; the action itself may be interrupted half-way
                let mut i = (*step).min(last_snaps.len() - 2);
                if *writing {
                    let w: Vec<usize> = (0..last_snaps.len() - 1)
                        .filter(|k| tree::snap_hash(&last_snaps[*k]) != tree::snap_hash(&last_snaps[*k + 1]))
                        .collect();
                    if !w.is_empty() {
                        i = w[*step % w.len()];
                    }
                }
                let pre = &last_snaps[i];
                let post = &last_snaps[i + 1];
                let mut img = pre.clone();
                let mut trng = Rng::new(*torn);
                let mut torn_n = 0;
                for (path, ch) in tree::diff(pre, post) {
                    let new = match post.get(&path) {
                        Some(Node::File { data, .. }) => Some(data.clone()),
                        _ => None,
                    };
                    match (ch, new) {
                        (Change::Created, Some(d)) | (Change::Content, Some(d)) | (Change::Touched, Some(d)) => {
                            let choice = trng.below(4);
                            let bytes = match choice {
                                0 => None, // keep pre-pass state
                                1 => Some(vec![]),
                                2 => Some(d[..trng.below(d.len() + 1)].to_vec()),
                                _ => Some(d.clone()),
                            };
                            if let Some(b) = bytes {
                                torn_n += 1;
                                img.insert(
                                    path.clone(),
                                    Node::File {
                                        data: b,
                                        ino: 0,
                                        mtime: (0, 0),
                                    },
                                );
                            }
                        }
                        (Change::Deleted, _) => {
                            if trng.chance(1, 2) {
                                img.remove(&path);
                            }
                        }
                        _ => {}
                    }
                }
                // probe: was any task in flight at the crash point?
                let acts_before: Vec<&String> = last_log
                    .iter()
                    .filter(|l| l.starts_with("ACT "))
                    .take(i)
                    .collect();
                let mut open: BTreeMap<&str, i32> = BTreeMap::new();
                for a in &acts_before {
                    let n = &a[4..];
                    if n != "coord" {
                        *open.entry(n).or_insert(0) += 1;
                    }
                }
                if open.values().any(|c| c % 2 == 1) {
                    h.crash_in_flight += 1;
                }
                h.crash_images += 1;
                h.torn_files += torn_n;
                tree::restore(&env.root, &img);
            }
        }
    }
    crate::ctl::hold_stragglers(false);
    crate::ctl::drain_stragglers();
    h
}

fn non_generated_project(s: &Snap, gen: &BTreeSet<String>) -> Project {
    let mut p = tree::to_project(s);
    p.entries.retain(|e| !gen.contains(e.path()));
    p
}

/// R-seq of the sources in snapshot `s`, computed in the sibling reference tree.
fn rseq_now(ctx: &mut Ctx, s: &Snap, cfg: &RunCfg) -> (Analysis, BTreeSet<usize>, RSeq, Result<(), String>) {
    let p_all = tree::to_project(s);
    let a = analyze(&p_all);
    let gen = a.gen_all();
    let pristine = non_generated_project(s, &gen);
    let a = analyze(&pristine);
    let req = match gen::r_inputs(&pristine, &a, &cfg.base, &cfg.inputs, cfg.recursive) {
        Resolved::Sources(x) => a.closure(&x),
        Resolved::Error(e) => return (a, BTreeSet::new(), RSeq::default(), Err(e)),
    };
    tree::plant(&ctx.env.ref_root, &pristine);
    let good: BTreeSet<usize> = req.difference(&a.bad()).copied().collect();
    let r = rseq(
        ctx.env,
        &ctx.env.ref_root,
        &a,
        &good,
        &cfg.base,
        txtpp::Mode::Build,
        cfg.trailing_newline,
        &cfg.shell,
    );
    (a, req, r, Ok(()))
}

fn hist_opts(mark_all: bool) -> GraphOpts {
    GraphOpts {
        max_n: 5,
        cyclic: false,
        markers: true,
        probes: false,
        temps: true,
        big: true,
        dotted: super::graph::DOTTED_STEMS,
        absolute: false,
        decoys: true,
        mark_all,
        sized: true,
        wide: false,
        mega: false,
        symlinks: false,
        read_above: true,
        scratch_dir: false,
    }
}

fn gen_project(rng: &mut Rng, o: &GraphOpts) -> Project {
    let n = gen::pick_n(rng, o.max_n);
    let e = gen::gen_edges(rng, n, false);
    gen::gen_graph_project(rng, o, n, &e)
}

fn run_op(rng: &mut Rng, mode: ModeS, inputs: &[String], recursive: bool, tn: bool, label: &str) -> Op {
    let mut cfg = RunCfg::simple(mode, "", inputs.to_vec(), *rng.pick(&gen::KS));
    cfg.recursive = recursive;
    cfg.trailing_newline = tn;
    let seed = rng.next();
    Op::Run {
        cfg,
        sched: gen::pick_sched(rng, seed),
        label: label.to_string(),
    }
}

fn edit_source(rng: &mut Rng, p: &Project, a: &Analysis) -> Option<Op> {
    if a.n() == 0 {
        return None;
    }
    let s = &a.sources[rng.below(a.n())];
    let data = p.file(&s.path)?.lossy();
    let eol = crate::spec::line_ending(&data);
    if rng.chance(1, 6) && data.contains('\n') {
        // the first line gets the other line ending: every line ending of the output changes
        let t = match data.find('\n') {
            Some(i) if i > 0 && data.as_bytes()[i - 1] == b'\r' => format!("{}{}", &data[..i - 1], &data[i..]),
            Some(i) => format!("{}\r{}", &data[..i], &data[i..]),
            None => data.clone(),
        };
        return Some(Op::Write {
            path: s.path.clone(),
            data: B(t.into_bytes()),
        });
    }
    let mut lines: Vec<String> = crate::spec::split_lines(&data).iter().map(|x| x.to_string()).collect();
    let newline = format!("edited line {}", rng.below(100000));
    let temp_body: Vec<usize> = lines
        .iter()
        .enumerate()
        .filter(|(_, l)| l.contains("temp body"))
        .map(|(i, _)| i)
        .collect();
    if !temp_body.is_empty() && rng.chance(1, 2) {
        // change the body of a temp directive (keeps the directive grouping intact)
        let i = *rng.pick(&temp_body);
        lines[i] = lines[i].replace("temp body", &format!("temp body edited {}", rng.below(1000)));
    } else if lines.is_empty() || rng.chance(1, 2) {
        // append at the end (cannot disturb directive grouping except as continuation guard)
        lines.push("~".into());
        lines.push(newline);
    } else {
        lines[0] = newline;
    }
    let mut t = lines.join(eol);
    t.push_str(eol);
    Some(Op::Write {
        path: s.path.clone(),
        data: B(t.into_bytes()),
    })
}

/// After a successful build, make a directive of one source fail at execution time: insert an
/// erroneous directive, or remove a plain file that some source includes.
fn error_edit_op(rng: &mut Rng, p: &Project, a: &Analysis) -> Option<Op> {
    if a.n() == 0 {
        return None;
    }
    if rng.chance(1, 3) {
        for path in ["plain1.txt", "sub/plain2.txt", "lib/plain3.txt", "plain4.txt"] {
            let used = a.sources.iter().any(|s| {
                s.text
                    .as_deref()
                    .map(|t| t.contains(crate::names::file_name(path)))
                    .unwrap_or(false)
            });
            if used && rng.chance(1, 2) {
                return Some(Op::Remove { path: path.to_string() });
            }
        }
    }
    let src = a.sources[rng.below(a.n())].path.clone();
    let mut q = p.clone();
    let _kind = gen::inject_error(rng, &mut q, &src);
    q.file(&src).map(|d| Op::Write {
        path: src.clone(),
        data: d.clone(),
    })
}

/// Make the output path of one source a symbolic link to a file kept elsewhere in the tree
/// (`store/...`): builds write through the link, verify reads through it, clean removes the link.
fn link_an_output(rng: &mut Rng, p: &mut Project, a: &Analysis, ops: &mut Vec<Op>) {
    if a.n() == 0 {
        return;
    }
    let s = &a.sources[rng.below(a.n())];
    let kept = format!("store/kept_{}", crate::names::file_name(&s.out));
    if p.file(&kept).is_some() {
        return;
    }
    p.add_file(&kept, B::s("kept by hand before it became a generated file\n"));
    ops.insert(
        0,
        Op::Plant {
            entry: Entry::Symlink {
                path: s.out.clone(),
                target: gen::rel_path(crate::tree::parent_rel(&s.out), &kept),
            },
        },
    );
}

fn tamper_op(rng: &mut Rng, path: &str) -> Op {
    let kinds = [
        TamperKind::Flip,
        TamperKind::Insert,
        TamperKind::Delete,
        TamperKind::Append,
        TamperKind::Truncate,
        TamperKind::Remove,
        TamperKind::LossyTwin,
        TamperKind::CrlfFirst,
    ];
    let at = *rng.pick(&[0u32, 0, 500, 1000, 1000, 137, 873]);
    Op::Tamper {
        path: path.to_string(),
        kind: rng.pick(&kinds).clone(),
        at,
    }
}

pub fn gen(prop: &str, seed: u64, index: u64, _tier: Tier) -> Case {
    let per = super::per_project(prop);
    let pi = index / per;
    let mut prng = rng_for(seed, prop, pi, "project");
    let mut rng = rng_for(seed, prop, index, "history");
    let mut params = BTreeMap::new();
    let mut variant = String::new();
    let mut ops: Vec<Op> = vec![];
    let project;
    let mut linked_project: Option<Project> = None;
    match prop {
        "C06" => {
            project = gen_project(&mut prng, &hist_opts(false));
            let a = analyze(&project);
            let (inputs, recursive) = gen::gen_inputs(&mut prng, &a, false);
            let tn = !prng.chance(1, 5);
            ops.push(run_op(&mut rng, ModeS::Build, &inputs, recursive, tn, "build"));
            ops.push(Op::Sentinel);
            ops.push(run_op(&mut rng, ModeS::Verify, &inputs, recursive, tn, "verify-fresh"));
            // one disturbance, then verify again
            let req: Vec<usize> = match gen::r_inputs(&project, &a, "", &inputs, recursive) {
                Resolved::Sources(s) => a.closure(&s).into_iter().collect(),
                _ => vec![],
            };
            let mut tn2 = tn;
            let sized: Vec<usize> = req.iter().copied().filter(|i| a.sources[*i].path.starts_with("sized")).collect();
            if !sized.is_empty() && rng.chance(2, 3) {
                // outputs of boundary size: changes at the very end
                let s = &a.sources[sized[0]];
                let (kind, at) = rng
                    .pick(&[
                        (TamperKind::Append, 1000u32),
                        (TamperKind::Append, 1000),
                        (TamperKind::Insert, 1000),
                        (TamperKind::Truncate, 1000),
                        (TamperKind::Flip, 1000),
                        (TamperKind::Delete, 1000),
                    ])
                    .clone();
                ops.push(Op::Tamper {
                    path: s.out.clone(),
                    kind,
                    at,
                });
                variant = "tamper-boundary-sized".into();
            } else {
            match rng.below(11) {
                10 => {
                    // a build that fails in between (one source broken, then repaired): whatever
                    // it left, and whoever it left behind, verify judges the tree as it is
                    if let Some(op) = error_edit_op(&mut rng, &project, &a) {
                        let restore = match &op {
                            Op::Write { path, .. } | Op::Remove { path } => project.file(path).map(|d| Op::Write {
                                path: path.clone(),
                                data: d.clone(),
                            }),
                            _ => None,
                        };
                        if let Some(r) = restore {
                            ops.push(op);
                            ops.push(run_op(&mut rng, ModeS::Build, &inputs, recursive, tn, "failing-build"));
                            ops.push(r);
                            variant = "failed-build-between".into();
                        }
                    }
                }
                9 => {
                    // a temp file changed by hand: verify regenerates it, outputs are still fresh
                    let temps: Vec<String> = req.iter().flat_map(|i| a.sources[*i].temps.clone()).collect();
                    if !temps.is_empty() {
                        let path = rng.pick(&temps).clone();
                        ops.push(tamper_op(&mut rng, &path));
                        variant = "tamper-temp".into();
                    }
                }
                8 => {
                    if let Some(op) = error_edit_op(&mut rng, &project, &a) {
                        ops.push(op);
                        variant = "error-edit".into();
                    }
                }
                0..=4 => {
                    // tamper an output of the requested closure (requested file or dependency)
                    if !req.is_empty() {
                        let s = &a.sources[*rng.pick(&req)];
                        ops.push(tamper_op(&mut rng, &s.out));
                        variant = "tamper".into();
                    }
                }
                5 => {
                    tn2 = !tn;
                    variant = "flag-flip".into();
                }
                6 => {
                    if let Some(op) = edit_source(&mut rng, &project, &a) {
                        ops.push(op);
                        variant = "edit".into();
                    }
                }
                _ => {
                    // tamper an output outside the closure: must not matter
                    let others: Vec<usize> = (0..a.n()).filter(|i| !req.contains(i)).collect();
                    if !others.is_empty() {
                        let s = &a.sources[*rng.pick(&others)];
                        ops.push(tamper_op(&mut rng, &s.out));
                        variant = "tamper-unrelated".into();
                    }
                }
            }
            }
            ops.push(Op::Sentinel);
            ops.push(run_op(&mut rng, ModeS::Verify, &inputs, recursive, tn2, "verify-after"));
            if prng.chance(1, 8) {
                let mut p6 = project.clone();
                link_an_output(&mut prng, &mut p6, &a, &mut ops);
                linked_project = Some(p6);
            }
        }
        "C07" => {
            let mut p = gen_project(&mut prng, &hist_opts(true));
            let a = analyze(&p);
            let shape = rng.below(10);
            if shape >= 7 && a.n() > 0 {
                // sources with directive errors: build fails, clean must still succeed
                let s = a.sources[prng.below(a.n())].path.clone();
                let k = gen::inject_error(&mut prng, &mut p, &s);
                params.insert("error".into(), k);
            }
            let a = analyze(&p);
            if prng.chance(1, 5) && a.n() >= 2 {
                // two sources name the same temp target with the same content: both clean passes
                // go for the same file
                let i = prng.below(a.n());
                let mut j = prng.below(a.n());
                if j == i {
                    j = (i + 1) % a.n();
                }
                for k in [i, j] {
                    let sp = a.sources[k].path.clone();
                    if let Some(d) = p.file(&sp).cloned() {
                        let t = d.lossy();
                        let eol = crate::spec::line_ending(&t);
                        let mut t2 = t.clone();
                        if !t2.is_empty() && !t2.ends_with('\n') {
                            t2.push_str(eol);
                        }
                        let target = gen::rel_path(&a.sources[k].dir, "shared_target.tmp");
                        t2.push_str(&format!("~{eol}-TXTPP#temp {target}{eol}-shared body{eol}after shared{eol}"));
                        p.set_file(&sp, B(t2.into_bytes()));
                    }
                }
                params.insert("shared_temp".into(), "true".into());
            }
            let a = analyze(&p);
            for s in &a.sources {
                for t in &s.temps {
                    if !s.dir.is_empty() && crate::tree::parent_rel(t) == s.dir && prng.chance(1, 3) {
                        let f = crate::names::file_name(t).to_string();
                        if p.file(&f).is_none() && !a.gen_all().contains(&f) {
                            p.add_file(&f, B::s("in the base directory, named like a temp file further down\n"));
                        }
                    }
                }
            }
            // overlapping inputs as well (the same file named twice, a file and its directory)
            let (mut inputs, mut recursive) = gen::gen_inputs(&mut prng, &a, true);
            // the base directory is a sub-directory now and then: temp targets of the sources in
            // it may lie outside the base directory
            let mut base7 = String::new();
            if prng.chance(1, 6) {
                let with_src: Vec<&str> = ["sub", "lib", "sub/deep", "sub/other"]
                    .into_iter()
                    .filter(|d| a.sources.iter().any(|s| s.dir == *d || s.dir.starts_with(&format!("{d}/"))))
                    .collect();
                if !with_src.is_empty() {
                    base7 = (*prng.pick(&with_src)).to_string();
                    inputs = vec![".".into()];
                    recursive = !prng.chance(1, 4);
                }
            }
            match shape {
                0..=4 | 7 | 8 => {
                    ops.push(run_op(&mut rng, ModeS::Build, &inputs, recursive, true, "build"));
                    variant = "build-clean-clean".into();
                }
                5 => {
                    ops.push(run_op(&mut rng, ModeS::Build, &inputs, recursive, true, "build"));
                    // some generated files already absent
                    for g in a.gen_all() {
                        if rng.chance(1, 3) {
                            ops.push(Op::Remove { path: g });
                        }
                    }
                    variant = "build-remove-clean".into();
                }
                _ => {
                    variant = "clean-without-build".into();
                }
            }
            ops.push(Op::Sentinel);
            ops.push(run_op(&mut rng, ModeS::Clean, &inputs, recursive, true, "clean"));
            ops.push(run_op(&mut rng, ModeS::Clean, &inputs, recursive, true, "clean-again"));
            if !base7.is_empty() {
                for op in ops.iter_mut() {
                    if let Op::Run { cfg, .. } = op {
                        cfg.base = base7.clone();
                    }
                }
            }
            project = p;
        }
        "C08" => {
            let mut p8 = gen_project(&mut prng, &hist_opts(false));
            let a0 = analyze(&p8);
            if prng.chance(1, 8) && a0.n() > 0 {
                // a build that fails must fail whatever is lying around, too (only verdicts compared)
                let s = a0.sources[prng.below(a0.n())].path.clone();
                let k = gen::inject_error(&mut prng, &mut p8, &s);
                params.insert("error".into(), k);
            }
            project = p8;
            let a = analyze(&project);
            let (inputs, recursive) = gen::gen_inputs(&mut prng, &a, false);
            let tn = !prng.chance(1, 6);
            let final_seed = prng.next();
            let final_policy = gen::pick_policy(&mut prng);
            let final_k = *prng.pick(&gen::KS);
            let shape = rng.below(13);
            params.insert("dirty_seed".into(), format!("{}", rng.next()));
            match shape {
                10..=12 => {
                    // an earlier version of one or two sources (edited text, or a directive that fails)
                    // is built, interrupted or built with --needed; then the sources get their final
                    // text back and the final build must not care what the earlier version left
                    let mut restore: Vec<Op> = vec![];
                    let n_edits = rng.range(1, 2);
                    // shape 11: one source fails; usually another one has older text as well
                    let n_edits = if shape == 11 { rng.range(1, 3) } else { n_edits };
                    for e in 0..n_edits {
                        let op = if shape == 11 && e == 0 {
                            error_edit_op(&mut rng, &project, &a)
                        } else {
                            edit_source(&mut rng, &project, &a)
                        };
                        if let Some(op) = op {
                            match &op {
                                Op::Write { path, .. } | Op::Remove { path } => {
                                    if restore.iter().any(|r| matches!(r, Op::Write { path: q, .. } if q == path)) {
                                        continue;
                                    }
                                    if let Some(orig) = project.file(path) {
                                        restore.push(Op::Write {
                                            path: path.clone(),
                                            data: orig.clone(),
                                        });
                                    } else {
                                        continue;
                                    }
                                }
                                _ => continue,
                            }
                            ops.push(op);
                        }
                    }
                    let m = if rng.chance(1, 3) { ModeS::Needed } else { ModeS::Build };
                    ops.push(run_op(&mut rng, m, &inputs, recursive, tn, "earlier-version"));
                    if shape == 12 {
                        ops.push(Op::CrashImage {
                            step: rng.below(40),
                            torn: rng.next(),
                            writing: rng.chance(2, 3),
                        });
                    }
                    ops.extend(restore);
                    variant = match shape {
                        10 => "edit-build",
                        11 => "error-fix-build",
                        _ => "edit-crash-build",
                    }
                    .into();
                }
                0..=2 => variant = "dirty-build".into(),
                3 => {
                    ops.push(run_op(&mut rng, ModeS::Build, &inputs, recursive, tn, "build-1"));
                    variant = "build-build".into();
                }
                4 => {
                    ops.push(run_op(&mut rng, ModeS::Needed, &inputs, recursive, tn, "needed-1"));
                    variant = "needed-build".into();
                }
                5..=8 => {
                    let m = if rng.chance(1, 4) { ModeS::Needed } else { ModeS::Build };
                    ops.push(run_op(&mut rng, m, &inputs, recursive, tn, "interrupted"));
                    ops.push(Op::CrashImage {
                        step: rng.below(40),
                        torn: rng.next(),
                        writing: rng.chance(2, 3),
                    });
                    variant = "crash-build".into();
                }
                _ => {
                    ops.push(run_op(&mut rng, ModeS::Build, &inputs, recursive, tn, "interrupted"));
                    ops.push(Op::CrashImage {
                        step: rng.below(40),
                        torn: rng.next(),
                        writing: rng.chance(2, 3),
                    });
                    ops.push(run_op(&mut rng, ModeS::Needed, &inputs, recursive, tn, "needed-after-crash"));
                    variant = "crash-needed-build".into();
                }
            }
            // the final build is a --needed build now and then (compared with the same --needed
            // build from a pristine tree): it leaves leftovers alone until it has compared them
            let final_mode = if rng.chance(1, 4) { ModeS::Needed } else { ModeS::Build };
            let mut cfg = RunCfg::simple(final_mode, "", inputs.clone(), final_k);
            cfg.recursive = recursive;
            cfg.trailing_newline = tn;
            ops.push(Op::Run {
                cfg,
                sched: Sched::seeded(final_seed, final_policy, false),
                label: "final-build".into(),
            });
        }
        "C09" => {
            let mut o9 = hist_opts(false);
            o9.mega = true;
            project = gen_project(&mut prng, &o9);
            let a = analyze(&project);
            let (inputs, recursive) = gen::gen_inputs(&mut prng, &a, false);
            let tn = !prng.chance(1, 6);
            // pre-state: a build, then a mix of edits / tampering / deletions
            ops.push(run_op(&mut rng, ModeS::Build, &inputs, recursive, tn, "build-0"));
            let n_dist = rng.below(4);
            let sized_outs: Vec<String> = a
                .sources
                .iter()
                .filter(|s| s.path.starts_with("sized"))
                .map(|s| s.out.clone())
                .collect();
            if !sized_outs.is_empty() && rng.chance(1, 2) {
                // same length, last byte changed: only a full comparison notices
                ops.push(Op::Tamper {
                    path: sized_outs[0].clone(),
                    kind: TamperKind::Flip,
                    at: *rng.pick(&[1000u32, 1000, 999, 990, 700]),
                });
            }
            for _ in 0..n_dist {
                match rng.below(5) {
                    0 => {
                        if let Some(op) = edit_source(&mut rng, &project, &a) {
                            ops.push(op);
                        }
                    }
                    1 => {
                        // arbitrary leftover bytes at a generated path (F10)
                        let g: Vec<String> = a.gen_all().into_iter().collect();
                        if !g.is_empty() {
                            let path = rng.pick(&g).clone();
                            if let Some(b) = dirty_bytes(&mut rng, None, true) {
                                ops.push(Op::Write { path, data: B(b) });
                            }
                        }
                    }
                    _ => {
                        let g: Vec<String> = a.gen_all().into_iter().collect();
                        if !g.is_empty() {
                            let path = rng.pick(&g).clone();
                            ops.push(tamper_op(&mut rng, &path));
                        }
                    }
                }
            }
            if rng.chance(1, 5) {
                ops.push(run_op(&mut rng, ModeS::Verify, &inputs, recursive, tn, "verify-between"));
            }
            ops.push(Op::Sentinel);
            ops.push(Op::Checkpoint);
            let twin_seed = rng.next();
            let twin_policy = gen::pick_policy(&mut rng);
            let twin_k = *rng.pick(&gen::KS);
            // sources saved again without a change (newer than their outputs), outputs older or
            // newer than everything else: time stamps must not decide anything
            let mut touches: Vec<Op> = vec![];
            if rng.chance(1, 3) {
                for s in &a.sources {
                    if rng.chance(1, 2) {
                        touches.push(Op::Touch {
                            path: s.path.clone(),
                            days: *rng.pick(&[1i64, 365, -1, 4000]),
                        });
                    }
                }
            }
            for (m, l) in [(ModeS::Build, "twin-build"), (ModeS::Needed, "twin-needed")] {
                ops.extend(touches.iter().cloned());
                let mut cfg = RunCfg::simple(m, "", inputs.clone(), twin_k);
                cfg.recursive = recursive;
                cfg.trailing_newline = tn;
                ops.push(Op::Run {
                    cfg,
                    sched: Sched::seeded(twin_seed, twin_policy, false),
                    label: l.into(),
                });
                if m == ModeS::Build {
                    ops.push(Op::Rollback);
                }
            }
            variant = "twins".into();
        }
        _ => {
            // C10: every mode, successful and failing projects, decoys
            let mut p = gen_project(&mut prng, &hist_opts(false));
            let a0 = analyze(&p);
            if prng.chance(1, 3) && a0.n() > 0 {
                let s = a0.sources[prng.below(a0.n())].path.clone();
                let k = gen::inject_error(&mut prng, &mut p, &s);
                params.insert("error".into(), k);
            }
            // near-miss decoys beside every output
            let a = analyze(&p);
            for s in &a.sources {
                if prng.chance(1, 2) {
                    p.add_file(&format!("{}.orig", s.out), B::s("decoy next to output\n"));
                }
                if prng.chance(1, 3) {
                    p.add_file(&format!("{}~", s.path), B::s("editor backup\n"));
                }
                if prng.chance(1, 3) {
                    // the output name with another last extension (page.txt -> page.tmp / page.bak)
                    let f = crate::names::file_name(&s.out);
                    let stem = match f.rsplit_once('.') {
                        Some((st, _)) if !st.is_empty() => st.to_string(),
                        _ => f.to_string(),
                    };
                    let ext = *prng.pick(&["tmp", "bak", "new", "swp"]);
                    let path = crate::tree::join_rel(crate::tree::parent_rel(&s.out), &format!("{stem}.{ext}")).unwrap();
                    if p.file(&path).is_none() && !a.gen_all().contains(&path) {
                        p.add_file(&path, B::s("same stem, other extension\n"));
                    }
                }
            }
            // a file in the base directory that has the name of a temp file written further down
            for s in &a.sources {
                for t in &s.temps {
                    if !s.dir.is_empty() && crate::tree::parent_rel(t) == s.dir && prng.chance(1, 2) {
                        let f = crate::names::file_name(t).to_string();
                        if p.file(&f).is_none() && !a.gen_all().contains(&f) {
                            p.add_file(&f, B::s("in the base directory, named like a temp file further down\n"));
                        }
                    }
                }
            }
            let (inputs, recursive) = gen::gen_inputs(&mut prng, &a, true);
            let n_ops = rng.range(1, 4);
            ops.push(Op::Sentinel);
            for k in 0..n_ops {
                let m = *rng.pick(&[ModeS::Build, ModeS::Needed, ModeS::Verify, ModeS::Clean, ModeS::Build]);
                let tn = !rng.chance(1, 6);
                ops.push(run_op(&mut rng, m, &inputs, recursive, tn, &format!("op{k}")));
                if matches!(m, ModeS::Build | ModeS::Needed) && rng.chance(1, 6) {
                    // carry on from the tree an interrupted run leaves behind
                    ops.push(Op::CrashImage {
                        step: rng.below(40),
                        torn: rng.next(),
                        writing: rng.chance(2, 3),
                    });
                }
                if rng.chance(1, 4) {
                    let g: Vec<String> = a.gen_all().into_iter().collect();
                    if !g.is_empty() {
                        let path = rng.pick(&g).clone();
                        ops.push(tamper_op(&mut rng, &path));
                    }
                }
                if rng.chance(1, 5) {
                    // a directive that starts failing after earlier runs succeeded
                    if let Some(op) = error_edit_op(&mut rng, &p, &a) {
                        ops.push(op);
                    }
                }
                ops.push(Op::Sentinel);
            }
            if prng.chance(1, 8) {
                link_an_output(&mut prng, &mut p, &a, &mut ops);
            }
            if prng.chance(1, 6) {
                // the process works in another directory than the base directory, and that
                // directory holds files at the same relative paths as the project's outputs
                p.add_dir("mirror");
                for s in &a.sources {
                    p.add_file(&format!("mirror/{}", s.out), B::s("same relative path, another directory\n"));
                    for t in &s.temps {
                        if prng.chance(1, 2) {
                            p.add_file(&format!("mirror/{t}"), B::s("same relative path, another directory\n"));
                        }
                    }
                }
                for op in ops.iter_mut() {
                    if let Op::Run { cfg, .. } = op {
                        cfg.cwd = Some("mirror".into());
                    }
                }
                params.insert("cwd".into(), "mirror".into());
            }
            variant = "mixed".into();
            project = p;
        }
    }
    let project = linked_project.unwrap_or(project);
    Case {
        property: prop.to_string(),
        variant,
        seed,
        index,
        project,
        ops,
        params,
    }
}

/// The informative lines of an error report, without colour codes and location lines.
pub fn err_brief(e: &str) -> String {
    let mut clean = String::new();
    let mut chars = e.chars().peekable();
    while let Some(c) = chars.next() {
        if c == '\u{1b}' {
            for d in chars.by_ref() {
                if d.is_ascii_alphabetic() {
                    break;
                }
            }
        } else {
            clean.push(c);
        }
    }
    clean
        .lines()
        .map(|l| l.trim_matches(|c: char| c.is_whitespace() || "│├╴╰─▶".contains(c)))
        .filter(|l| !l.is_empty() && !l.starts_with("at ") && !l.starts_with("backtrace") && !l.contains("Txtpp was unsuccessful"))
        .take(4)
        .collect::<Vec<_>>()
        .join(" | ")
}

fn is_generated_change(gen: &BTreeSet<String>, path: &str) -> bool {
    gen.contains(path)
}

pub fn run(case: &Case, ctx: &mut Ctx) -> CaseOutcome {
    let mut out = CaseOutcome::default();
    let prop = case.property.as_str();
    let mut rec = case.clone();

    // C08: the reference build from a pristine tree under the final run's schedule comes first
    let mut c08_ref: Option<(Verdict, Snap)> = None;
    let mut case_run = case.clone();
    if prop == "C08" {
        let (fcfg, fsched) = match case.ops.last() {
            Some(Op::Run { cfg, sched, .. }) => (cfg.clone(), sched.clone()),
            _ => {
                out.harness_error = Some("C08 case without final run".into());
                return out;
            }
        };
        tree::plant(&ctx.env.root, &case.project);
        ctx.env.clear_run_vlog();
        // the reference follows the seeded policy, never a recorded script of the other run
        let mut rs = fsched.clone();
        rs.script = None;
        rs.strict = false;
        let sim = ctx.env.run(&fcfg, &rs, false);
        if sim.poisoned {
            out.poisoned = true;
            return out;
        }
        let snap = tree::snapshot(&ctx.env.root);
        // dirty pre-state for the "dirty-build" variant is derived from the reference result
        if case.variant == "dirty-build" {
            let a = analyze(&case.project);
            let dirty_seed: u64 = case.params.get("dirty_seed").and_then(|s| s.parse().ok()).unwrap_or(1);
            let mut drng = Rng::new(dirty_seed);
            let mut pre_ops = vec![];
            for g in a.gen_all() {
                let fresh = tree::file_bytes(&snap, &g);
                if let Some(b) = dirty_bytes(&mut drng, fresh, true) {
                    if let Err(e) = std::str::from_utf8(&b) {
                        let _ = e;
                        ctx.stats.count("fault.F10_prestate.invalid_utf8");
                    } else {
                        ctx.stats.count("fault.F10_prestate.valid_utf8");
                    }
                    pre_ops.push(Op::Write { path: g, data: B(b) });
                } else {
                    ctx.stats.count("fault.F10_prestate.absent");
                }
            }
            let n = case_run.ops.len();
            for (k, op) in pre_ops.into_iter().enumerate() {
                case_run.ops.insert(n - 1 + k, op);
            }
            rec = case_run.clone();
        }
        c08_ref = Some((sim.verdict.clone(), snap));
    }

    let h = exec(&case_run, ctx, &mut rec);
    out.poisoned = h.poisoned;
    if let Some(d) = &h.diverged {
        out.harness_error = Some(format!("replay divergence: {d}"));
        return out;
    }
    // recorded scripts refer to op indices of case_run; for dirty-build the inserted writes are
    // part of the recorded case, so it replays without the derivation step
    if prop == "C08" && case.variant == "dirty-build" {
        rec.variant = "dirty-build-recorded".into();
    }
    out.recorded = Some(rec);
    let mut dig = vec![];
    for r in &h.runs {
        dig.push(r.sim.log_hash());
        dig.push(tree::snap_hash(&r.after));
        out.trace.push(format!("--- {} ({}) verdict {}", r.label, r.cfg.mode.name(), r.sim.verdict.short()));
        out.trace.extend(tail(&r.sim.log, 40));
    }
    out.digest = mix(&dig);
    ctx.stats.add("fault.F11_crash_images", h.crash_images);
    ctx.stats.add("probe.crash_image_with_task_in_flight", h.crash_in_flight);
    ctx.stats.add("fault.F11_torn_files", h.torn_files);
    if h.poisoned {
        // a hang inside a history is C03/C18's finding; here it only ends the case
        ctx.stats.count("skipped.hung_run_in_history");
        return out;
    }
    let case_hash = mix(&[project_hash(&case.project), out.digest]);

    match prop {
        "C06" => oracle_c06(case, &h, ctx, &mut out, case_hash),
        "C07" => oracle_c07(case, &h, ctx, &mut out, case_hash),
        "C08" => oracle_c08(case, &h, ctx, &mut out, case_hash, c08_ref),
        "C09" => oracle_c09(case, &h, ctx, &mut out, case_hash),
        _ => {}
    }
    // C10's write-set oracle is evaluated for C10 cases only (other properties stay independent)
    if prop == "C10" {
        oracle_c10(case, &h, ctx, &mut out, case_hash);
        // the same operation once more through the real binary (OS-scheduled), verify and clean with
        // the top-level -N flag in front of the subcommand, which must not change what they do
        if case.index % 16 == 0 && out.violation.is_none() {
            if let Some(r) = h.runs.last() {
                if r.cfg.cwd.is_none() && !r.cfg.base_relative {
                    tree::restore(&ctx.env.root, &r.before);
                    tree::set_sentinel(&ctx.env.root);
                    let before = tree::snapshot(&ctx.env.root);
                    std::env::set_var("VERIF_CLI_STRAY_N", "1");
                    let code = super::fault::run_cli(&ctx.env.root, &r.cfg);
                    std::env::set_var("VERIF_CLI_STRAY_N", "0");
                    if let Some(code) = code {
                        let after = tree::snapshot(&ctx.env.root);
                        ctx.stats.count(&format!("c10.cli_ops.{}", r.cfg.mode.name()));
                        let a = analyze(&tree::to_project(&before));
                        let mut gen = a.gen_all();
                        let mut outs: BTreeSet<String> = a.sources.iter().map(|s| s.out.clone()).collect();
                        if r.cfg.mode != ModeS::Clean {
                            let linked: Vec<String> = gen.iter().filter_map(|g| tree::follow(&before, g)).collect();
                            let linked_outs: Vec<String> = outs.iter().filter_map(|o| tree::follow(&before, o)).collect();
                            gen.extend(linked);
                            outs.extend(linked_outs);
                        }
                        for (p, ch) in tree::diff(&before, &after) {
                            if !gen.contains(&p) {
                                out.violate("C10", "wrote-outside-own-outputs", format!("[cli {} exit {code}] {ch:?} {p}", r.cfg.mode.name()));
                            } else if r.cfg.mode == ModeS::Verify && outs.contains(&p) {
                                out.violate("C10", "verify-touched-output", format!("[cli -N verify, exit {code}] {ch:?} output {p}"));
                            } else if r.cfg.mode == ModeS::Clean && ch != Change::Deleted {
                                out.violate("C10", "clean-created-or-modified", format!("[cli -N clean, exit {code}] {ch:?} {p}"));
                            }
                        }
                    }
                }
            }
        }
    }
    if prop == "C07" && out.violation.is_none() && case.index % 16 == 0 {
        // clean through the real binary, with the stray -N flag in front of the subcommand
        if let Some(r) = h.runs.iter().find(|r| r.label == "clean") {
            tree::restore(&ctx.env.root, &r.before);
            ctx.env.clear_run_vlog();
            std::env::set_var("VLOG", &ctx.env.vlog);
            let before = tree::snapshot(&ctx.env.root);
            std::env::set_var("VERIF_CLI_STRAY_N", "1");
            let code = super::fault::run_cli(&ctx.env.root, &r.cfg);
            std::env::set_var("VERIF_CLI_STRAY_N", "0");
            if let Some(code) = code {
                let after = tree::snapshot(&ctx.env.root);
                ctx.stats.count("c07.cli_clean_runs");
                let pb = tree::to_project(&before);
                let a = analyze(&pb);
                let n_vlog = std::fs::read_dir(&ctx.env.vlog).map(|d| d.count()).unwrap_or(0);
                if n_vlog > 0 {
                    out.violate("C07", "clean-executed-command", format!("[cli -N clean, exit {code}] run commands were executed"));
                }
                if let Resolved::Sources(named) = gen::r_inputs(&pb, &a, &r.cfg.base, &r.cfg.inputs, r.cfg.recursive) {
                    if code != 0 {
                        out.violate("C07", "clean-failed", format!("[cli -N clean] exit {code}"));
                    }
                    for i in &named {
                        for g in a.sources[*i].generated() {
                            if matches!(after.get(&g), Some(Node::File { .. })) {
                                out.violate(
                                    "C07",
                                    "leftover-after-clean/named-source",
                                    format!("[cli -N clean, exit {code}] left {g}, generated by the named source {}", a.sources[*i].path),
                                );
                            }
                        }
                    }
                }
                for (p, ch) in tree::diff(&before, &after) {
                    if ch == Change::Created {
                        out.violate("C07", "clean-created-file", format!("[cli -N clean] created {p}"));
                    }
                }
            }
        }
    }
    if prop == "C06" && out.violation.is_none() && case.index % 16 == 0 {
        // verify through the real binary, with the stray -N flag: same verdict, outputs untouched
        if let Some(r) = h.runs.iter().rev().find(|r| r.cfg.mode == ModeS::Verify) {
            tree::restore(&ctx.env.root, &r.before);
            tree::set_sentinel(&ctx.env.root);
            let before = tree::snapshot(&ctx.env.root);
            std::env::set_var("VERIF_CLI_STRAY_N", "1");
            let code = super::fault::run_cli(&ctx.env.root, &r.cfg);
            std::env::set_var("VERIF_CLI_STRAY_N", "0");
            if let Some(code) = code {
                let after = tree::snapshot(&ctx.env.root);
                ctx.stats.count("c06.cli_verify_runs");
                let a = analyze(&tree::to_project(&before));
                let outs: BTreeSet<String> = a.sources.iter().map(|s| s.out.clone()).collect();
                for (p, ch) in tree::diff(&before, &after) {
                    if outs.contains(&p) {
                        out.violate("C06", "verify-wrote-output", format!("[cli -N verify, exit {code}] {ch:?} output {p}"));
                    }
                }
                match (&r.sim.verdict, code) {
                    (Verdict::Ok, c) if c != 0 => out.violate("C06", "verify-rejects-fresh-output", format!("[cli -N verify] exit {c} where the library verify succeeds")),
                    (Verdict::Err(_), 0) => out.violate("C06", "verify-accepts-stale-output", "[cli -N verify] exit 0 where the library verify fails".to_string()),
                    _ => {}
                }
            }
        }
    }
    if ctx.stats.samples.len() < 3 && case.index % 101 == 0 {
        ctx.stats.samples.push(serde_json::json!({
            "index": case.index,
            "variant": case.variant,
            "ops": case_run.ops.iter().map(|o| match o {
                Op::Run{cfg, sched, label} => format!("run {} [{}] inputs={:?} k={} policy={:?}", cfg.mode.name(), label, cfg.inputs, cfg.k, sched.policy),
                Op::Write{path, ..} => format!("write {path}"),
                Op::Remove{path} => format!("remove {path}"),
                Op::Tamper{path, kind, at} => format!("tamper {path} {kind:?}@{at}"),
                Op::Plant{entry} => format!("plant {entry:?}"),
                Op::Sentinel => "sentinel".into(),
                Op::Touch{path, days} => format!("touch {path} {days:+}d"),
                Op::Checkpoint => "checkpoint".into(),
                Op::Rollback => "rollback".into(),
                Op::CrashImage{step, writing, ..} => format!("crash-image at {} {step}", if *writing { "writing action" } else { "step" }),
            }).collect::<Vec<_>>(),
            "verdicts": h.runs.iter().map(|r| format!("{}={}", r.label, r.sim.verdict.short())).collect::<Vec<_>>(),
        }));
    }
    out
}

// ------------------------------------------------------------------------------------------ C06

fn oracle_c06(_case: &Case, h: &Hist, ctx: &mut Ctx, out: &mut CaseOutcome, case_hash: u64) {
    for r in h.runs.iter().filter(|r| r.cfg.mode == ModeS::Verify) {
        let (a, req, rs, res) = rseq_now(ctx, &r.before, &r.cfg);
        if res.is_err() {
            continue;
        }
        let good: BTreeSet<usize> = req.difference(&a.bad()).copied().collect();
        let fresh_ok = rs.all_ok(&good) && good.len() == req.len();
        let mut up_to_date = fresh_ok;
        let mut why = String::new();
        if fresh_ok {
            for i in &req {
                let o = &a.sources[*i].out;
                // (an output path may be a link to a file kept elsewhere: builds write through it)
                let stored = tree::file_bytes_follow(&r.before, o);
                let want = rs.files.get(o).map(|v| v.as_slice());
                if stored != want || stored.is_none() {
                    up_to_date = false;
                    why = format!(
                        "{o}: stored {:?} vs fresh {:?}",
                        stored.map(preview),
                        want.map(preview)
                    );
                    break;
                }
            }
        } else {
            why = "a fresh build of the current sources fails".into();
        }
        ctx.stats.count(if up_to_date { "c06.verify_expected_ok" } else { "c06.verify_expected_err" });
        match (&r.sim.verdict, up_to_date) {
            (Verdict::Ok, false) => {
                out.violate(
                    "C06",
                    "verify-accepts-stale-output",
                    format!("verify [{}] succeeded although outputs are not up to date: {why}", r.label),
                );
            }
            (Verdict::Err(e), true) => {
                out.violate(
                    "C06",
                    "verify-rejects-fresh-output",
                    format!(
                        "verify [{}] failed although every output of the closure equals a fresh build: {}",
                        r.label,
                        err_brief(e)
                    ),
                );
            }
            _ => {}
        }
        if !up_to_date {
            ctx.stats.nontrivial.insert(mix(&[case_hash, r.op_index as u64]));
        }
        // read-only: no output path created, deleted, modified or touched
        let all = analyze(&tree::to_project(&r.before));
        let mut outs: BTreeSet<String> = all.sources.iter().map(|s| s.out.clone()).collect();
        let linked: Vec<String> = outs.iter().filter_map(|o| tree::follow(&r.before, o)).collect();
        outs.extend(linked);
        for (p, ch) in tree::diff(&r.before, &r.after) {
            if outs.contains(&p) {
                out.violate(
                    "C06",
                    "verify-wrote-output",
                    format!("verify [{}] changed output path {p}: {ch:?}", r.label),
                );
            }
        }
    }
}

// ------------------------------------------------------------------------------------------ C07

fn oracle_c07(case: &Case, h: &Hist, ctx: &mut Ctx, out: &mut CaseOutcome, case_hash: u64) {
    let t0 = match h.runs.first() {
        Some(r) => &r.before,
        None => return,
    };
    let build_ok = h
        .runs
        .iter()
        .find(|r| r.cfg.mode == ModeS::Build)
        .map(|r| r.sim.verdict.is_ok());
    for r in h.runs.iter().filter(|r| r.cfg.mode == ModeS::Clean) {
        let p_before = tree::to_project(&r.before);
        let a = analyze(&p_before);
        let gen = a.gen_all();
        ctx.stats.nontrivial.insert(mix(&[case_hash, r.op_index as u64]));
        let resolvable = matches!(
            gen::r_inputs(&p_before, &a, &r.cfg.base, &r.cfg.inputs, r.cfg.recursive),
            Resolved::Sources(_)
        );
        if !r.sim.verdict.is_ok() && resolvable {
            out.violate(
                "C07",
                "clean-failed",
                format!(
                    "clean [{}] returned {} ({})",
                    r.label,
                    r.sim.verdict.short(),
                    match &r.sim.verdict {
                        Verdict::Err(e) => err_brief(e),
                        _ => String::new(),
                    }
                ),
            );
        }
        if r.vlog_files > 0 {
            out.violate(
                "C07",
                "clean-executed-command",
                format!("clean [{}] executed run commands: markers {:?}", r.label, r.markers),
            );
        }
        // nothing but generated paths changes; nothing is created
        for (p, ch) in tree::diff(&r.before, &r.after) {
            if matches!(r.before.get(&p), Some(Node::Dir)) || matches!(r.after.get(&p), Some(Node::Dir)) {
                continue;
            }
            if ch == Change::Created {
                out.violate("C07", "clean-created-file", format!("clean [{}] created {p}", r.label));
            } else if !gen.contains(&p) {
                out.violate(
                    "C07",
                    "clean-changed-other-file",
                    format!("clean [{}] changed non-generated path {p}: {ch:?}", r.label),
                );
            } else if ch != Change::Deleted {
                out.violate(
                    "C07",
                    "clean-modified-generated-file",
                    format!("clean [{}] modified generated path {p} instead of removing it: {ch:?}", r.label),
                );
            }
        }
        // every generated path of every named source is gone
        let named = match gen::r_inputs(&p_before, &a, &r.cfg.base, &r.cfg.inputs, r.cfg.recursive) {
            Resolved::Sources(s) => s,
            Resolved::Error(_) => continue,
        };
        for i in &named {
            for g in a.sources[*i].generated() {
                if matches!(r.after.get(&g), Some(Node::File { .. })) {
                    // a path that another (unnamed) source also generates is not decidable here
                    out.violate(
                        "C07",
                        "leftover-after-clean/named-source",
                        format!("clean [{}] left {g}, generated by the named source {}", r.label, a.sources[*i].path),
                    );
                }
            }
        }
        // exact restoration: after build(I) ok; clean(I): leftovers may only be K1
        if r.label == "clean" && build_ok == Some(true) && case.variant == "build-clean-clean" {
            let mut leftovers_named = vec![];
            let mut leftovers_dep = vec![];
            let req = a.closure(&named);
            for (p, node) in &r.after {
                if let Node::File { .. } = node {
                    if !t0.contains_key(p) {
                        let owner_named = named.iter().any(|i| a.sources[*i].generated().contains(p));
                        let owner_dep = req
                            .iter()
                            .any(|i| !named.contains(i) && a.sources[*i].generated().contains(p));
                        if owner_named {
                            leftovers_named.push(p.clone());
                        } else if owner_dep {
                            leftovers_dep.push(p.clone());
                        } else {
                            leftovers_named.push(p.clone());
                        }
                    }
                }
            }
            ctx.stats.count("c07.exact_restoration_checked");
            if !leftovers_named.is_empty() {
                out.violate(
                    "C07",
                    "tree-not-restored",
                    format!("after build+clean the tree has extra files {leftovers_named:?}"),
                );
            } else if !leftovers_dep.is_empty() {
                out.violate(
                    "C07",
                    "leftover-after-clean/only-products-of-unnamed-dependencies",
                    format!(
                        "after build(I)+clean(I) the products of dependencies that I does not name remain: {leftovers_dep:?}"
                    ),
                );
            }
        }
        // sources never disappear
        for s in &a.sources {
            if !matches!(r.after.get(&s.path), Some(Node::File { .. })) {
                out.violate("C07", "clean-deleted-source", format!("clean [{}] deleted {}", r.label, s.path));
            }
        }
    }
}

// ------------------------------------------------------------------------------------------ C08

fn oracle_c08(
    case: &Case,
    h: &Hist,
    ctx: &mut Ctx,
    out: &mut CaseOutcome,
    case_hash: u64,
    reference: Option<(Verdict, Snap)>,
) {
    let (rv, rsnap) = match reference {
        Some(x) => x,
        None => return,
    };
    let last = match h.runs.last() {
        Some(r) => r,
        None => return,
    };
    let a = analyze(&case.project);
    let gen = a.gen_all();
    ctx.stats.count(&format!("c08.variant.{}", case.variant));
    ctx.stats.nontrivial.insert(case_hash);
    if rv.short() != last.sim.verdict.short() {
        out.violate(
            "C08",
            "verdict-depends-on-leftover-state",
            format!(
                "build from a pristine tree: {}; the same build (same schedule seed) after [{}]: {} {}",
                rv.short(),
                case.variant,
                last.sim.verdict.short(),
                match &last.sim.verdict {
                    Verdict::Err(e) => err_brief(e),
                    _ => String::new(),
                }
            ),
        );
        return;
    }
    if !rv.is_ok() {
        return;
    }
    // the build's products: generated paths of the requested sources and their dependencies
    let req = match gen::r_inputs(&case.project, &a, &last.cfg.base, &last.cfg.inputs, last.cfg.recursive) {
        Resolved::Sources(s) => a.closure(&s),
        Resolved::Error(_) => return,
    };
    let products: BTreeSet<String> = req.iter().flat_map(|i| a.sources[*i].generated()).collect();
    let _ = &gen;
    for g in &products {
        let want = tree::file_bytes(&rsnap, g);
        let got = tree::file_bytes(&last.after, g);
        if want != got {
            out.violate(
                "C08",
                "bytes-depend-on-leftover-state",
                format!(
                    "{g}: build from pristine tree gives {:?}, build after [{}] gives {:?}",
                    want.map(preview),
                    case.variant,
                    got.map(preview)
                ),
            );
            break;
        }
    }
    // idempotence on the whole tree: a second build changes no bytes
    if case.variant == "build-build" && h.runs.len() == 2 && h.runs[0].sim.verdict.is_ok() {
        for (p, ch) in tree::diff(&h.runs[0].after, &h.runs[1].after) {
            if ch != Change::Touched {
                out.violate(
                    "C08",
                    "build-not-idempotent",
                    format!("second build changed {p}: {ch:?}"),
                );
            }
        }
    }
}

// ------------------------------------------------------------------------------------------ C09

fn oracle_c09(_case: &Case, h: &Hist, ctx: &mut Ctx, out: &mut CaseOutcome, case_hash: u64) {
    let tb = h.runs.iter().find(|r| r.label == "twin-build");
    let tn = h.runs.iter().find(|r| r.label == "twin-needed");
    let (tb, tn) = match (tb, tn) {
        (Some(a), Some(b)) => (a, b),
        _ => return,
    };
    let a = analyze(&tree::to_project(&tb.before));
    let gen = a.gen_all();
    let outs: BTreeSet<String> = a.sources.iter().map(|s| s.out.clone()).collect();
    if tb.sim.verdict.short() != tn.sim.verdict.short() {
        out.violate(
            "C09",
            "needed-verdict-differs",
            format!(
                "from the same pre-state: build {} but --needed {} {}",
                tb.sim.verdict.short(),
                tn.sim.verdict.short(),
                match &tn.sim.verdict {
                    Verdict::Err(e) => err_brief(e),
                    _ => String::new(),
                }
            ),
        );
        return;
    }
    if !tb.sim.verdict.is_ok() {
        return;
    }
    let mut n_kept = 0;
    let mut n_updated = 0;
    for g in &gen {
        let want = tree::file_bytes(&tb.after, g);
        let got = tree::file_bytes(&tn.after, g);
        if want != got {
            out.violate(
                "C09",
                "needed-bytes-differ",
                format!("{g}: build leaves {:?}, --needed leaves {:?}", want.map(preview), got.map(preview)),
            );
            return;
        }
        // untouched-ness: pre-state already correct => inode and mtime sentinel unchanged
        let pre = tn.before.get(g);
        if let (Some(Node::File { data, ino, mtime }), Some(w)) = (pre, want) {
            if data.as_slice() == w {
                let is_out = outs.contains(g);
                // outputs: only the needed twin promises; temp files: every non-clean mode
                for (twin, name) in [(tn, "--needed"), (tb, "build")] {
                    if is_out && name == "build" {
                        continue;
                    }
                    let before_twin = twin.before.get(g);
                    let (ino0, mt0) = match before_twin {
                        Some(Node::File { ino, mtime, .. }) => (*ino, *mtime),
                        _ => (*ino, *mtime),
                    };
                    if let Some(Node::File { ino: i2, mtime: m2, .. }) = twin.after.get(g) {
                        if *i2 != ino0 || *m2 != mt0 {
                            out.violate(
                                "C09",
                                if is_out { "needed-rewrote-unchanged-output" } else { "rewrote-unchanged-temp" },
                                format!(
                                    "{name} rewrote {g} although its content was already correct (inode {ino0}->{i2}, mtime {mt0:?}->{m2:?})"
                                ),
                            );
                        } else {
                            n_kept += 1;
                        }
                    }
                }
            } else {
                n_updated += 1;
            }
        } else if want.is_some() {
            n_updated += 1;
        }
    }
    // verify runs in the history: temp files already correct stay untouched
    for r in h.runs.iter().filter(|r| r.cfg.mode == ModeS::Verify) {
        for (p, ch) in tree::diff(&r.before, &r.after) {
            if gen.contains(&p) && !outs.contains(&p) && ch == Change::Touched {
                out.violate("C09", "rewrote-unchanged-temp", format!("verify rewrote temp file {p} with identical content"));
            }
        }
    }
    // "any output or temp file that is stale is brought up to date": against a fresh
    // one-file-at-a-time build of the current sources
    let (a2, req2, rs, res) = rseq_now(ctx, &tn.before, &tn.cfg);
    if res.is_ok() && rs.all_ok(&req2) {
        for i in &req2 {
            if let Some(m) = compare_generated(&a2, *i, &tn.after, &rs) {
                out.violate("C09", "stale-file-not-brought-up-to-date", format!("after --needed: {m}"));
                break;
            }
        }
        ctx.stats.count("c09.needed_result_checked_against_fresh_reference");
    }
    ctx.stats.add("c09.files_kept_untouched", n_kept);
    ctx.stats.add("c09.files_brought_up_to_date", n_updated);
    if n_kept > 0 && n_updated > 0 {
        ctx.stats.nontrivial.insert(case_hash);
    }
}

// ------------------------------------------------------------------------------------------ C10

fn oracle_c10(_case: &Case, h: &Hist, ctx: &mut Ctx, out: &mut CaseOutcome, case_hash: u64) {
    for r in &h.runs {
        let a = analyze(&tree::to_project(&r.before));
        let gen = a.gen_all();
        let mut outs: BTreeSet<String> = a.sources.iter().map(|s| s.out.clone()).collect();
        let mut gen = gen;
        // a generated path may be a link to a file kept elsewhere: builds and verify's temp
        // refresh write through it (the file it leads to is the generated file then); clean
        // removes the link and has no business with the file behind it
        let linked: BTreeSet<String> = gen.iter().filter_map(|g| tree::follow(&r.before, g)).collect();
        if !linked.is_empty() {
            ctx.stats.count("c10.ops_with_linked_generated_path");
        }
        if r.cfg.mode != ModeS::Clean {
            for t in &linked {
                if outs.iter().any(|o| tree::follow(&r.before, o).as_deref() == Some(t.as_str())) {
                    outs.insert(t.clone());
                }
                gen.insert(t.clone());
            }
        }
        let d = tree::diff(&r.before, &r.after);
        ctx.stats.count(&format!("c10.ops.{}.{}", r.cfg.mode.name(), r.sim.verdict.short()));
        if !d.is_empty() {
            ctx.stats.nontrivial.insert(mix(&[case_hash, r.op_index as u64]));
        }
        for (p, ch) in d {
            let is_dir = matches!(r.before.get(&p), Some(Node::Dir)) || matches!(r.after.get(&p), Some(Node::Dir));
            if is_dir {
                out.violate(
                    "C10",
                    "directory-created-or-removed",
                    format!("{} [{}] {ch:?} directory {p}", r.cfg.mode.name(), r.label),
                );
                continue;
            }
            if !is_generated_change(&gen, &p) {
                out.violate(
                    "C10",
                    "wrote-outside-own-outputs",
                    format!(
                        "{} [{}] ({}) {ch:?} {p}, which is neither an output nor a temp target of any source",
                        r.cfg.mode.name(),
                        r.label,
                        r.sim.verdict.short()
                    ),
                );
                continue;
            }
            if r.cfg.mode == ModeS::Verify && outs.contains(&p) {
                out.violate(
                    "C10",
                    "verify-touched-output",
                    format!("verify [{}] {ch:?} output {p}", r.label),
                );
            }
            if r.cfg.mode == ModeS::Clean && ch != Change::Deleted {
                out.violate(
                    "C10",
                    "clean-created-or-modified",
                    format!("clean [{}] {ch:?} {p}", r.label),
                );
            }
        }
    }
}
