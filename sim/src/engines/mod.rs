//! Per-property engines: case generation and oracles.
use crate::env::Env;
use crate::model::*;
use crate::rng::Rng;
use crate::stats::{CaseOutcome, Stats};

pub mod common;
pub mod fault;
pub mod fuzz;
pub mod graph;
pub mod history;
pub mod inputs;
pub mod shell;
pub mod specgen;
pub mod sys;

pub const DEFAULT_SEED: u64 = 20261004;

#[derive(Clone, Copy, Debug, PartialEq, Eq)]
pub enum Tier {
    Quick,
    Thorough,
}

pub struct Ctx<'a> {
    pub env: &'a Env,
    pub stats: &'a mut Stats,
    pub cache: &'a mut common::Cache,
}

pub const CLAIMED: [&str; 13] = ["C01", "C02", "C03", "C04", "C05", "C06", "C07", "C08", "C09", "C10", "C11", "C17", "C18"];

/// Number of cases for a property and tier.
pub fn budget(prop: &str, tier: Tier) -> u64 {
    let q = match prop {
        "C02" | "C03" | "C05" => 20_000,
        "C06" | "C07" | "C09" => 6_000,
        "C08" => 4_000,
        "C04" => 4_800,
        "C11" => 20_000,
        "C01" => 24_000,
        "C18" => 20_000,
        "C17" => 6_000,
        "C10" => 6_000,
        _ => 10_000,
    };
    match tier {
        Tier::Quick => q,
        Tier::Thorough => q * 50,
    }
}

pub fn gen_case(prop: &str, seed: u64, index: u64, tier: Tier) -> Case {
    let mut case = gen_case_inner(prop, seed, index, tier);
    // swarm knob shared by every engine: the console. Most runs are quiet; a sixth of the cases
    // print progress (Normal / Verbose), half of those to a stderr on which every write fails.
    let mut rng = rng_for(seed, prop, index, "console");
    if rng.chance(1, 6) {
        let console = 1 + rng.below(4) as u8;
        for op in case.ops.iter_mut() {
            if let Op::Run { cfg, .. } = op {
                cfg.console = console;
            }
        }
    }
    case
}

/// Which case indices are syscall-level fault cases (engines/sys.rs), per property.
pub fn is_sys_index(prop: &str, index: u64) -> bool {
    match prop {
        "C08" => index % 40 == 17,
        "C04" => index % 40 == 17,
        "C09" => index % 60 == 23,
        "C10" => index % 60 == 31,
        _ => false,
    }
}

fn gen_case_inner(prop: &str, seed: u64, index: u64, tier: Tier) -> Case {
    if is_sys_index(prop, index) {
        return sys::gen(prop, seed, index, tier);
    }
    match prop {
        "C02" | "C03" | "C05" => graph::gen(prop, seed, index, tier),
        "C06" | "C07" | "C08" | "C09" | "C10" => history::gen(prop, seed, index, tier),
        "C04" => fault::gen(prop, seed, index, tier),
        "C11" => inputs::gen(prop, seed, index, tier),
        "C01" => specgen::gen(prop, seed, index, tier),
        "C18" => fuzz::gen(prop, seed, index, tier),
        "C17" => shell::gen(prop, seed, index, tier),
        _ => panic!("unknown property {prop}"),
    }
}

pub fn run_case(case: &Case, ctx: &mut Ctx) -> CaseOutcome {
    if case.variant.starts_with("sys-") {
        return sys::run(case, ctx);
    }
    match case.property.as_str() {
        "C02" | "C03" | "C05" => graph::run(case, ctx),
        "C06" | "C07" | "C08" | "C09" | "C10" => history::run(case, ctx),
        "C04" => fault::run(case, ctx),
        "C11" => inputs::run(case, ctx),
        "C01" => specgen::run(case, ctx),
        "C18" => fuzz::run(case, ctx),
        "C17" => shell::run(case, ctx),
        p => {
            let mut o = CaseOutcome::default();
            o.harness_error = Some(format!("no engine for property {p}"));
            o
        }
    }
}

pub fn level(prop: &str) -> &'static str {
    match prop {
        "C04" | "C08" => "fault_enumeration",
        _ => "exploration",
    }
}

pub fn rule(prop: &str) -> &'static str {
    match prop {
        "C01" => "case = (generated multi-file project over the documented input domain of DESIGN.md 4.3: all seven directives, single- and multi-line forms in the three continuation forms, ASCII and non-ASCII prefixes, indentation, LF/CRLF and mixed endings per file, with/without final newline, includes of plain files / of .txtpp-backed files across directories / of raw .txtpp files, tags in all orders, temp files, look-alike lines, one injected error in a seventh of the projects; input selection; mode build or --needed; trailing-newline option; K; seeded schedule, 4 per project). Oracle = executable README model (R-spec); cases the model cannot decide are skipped and counted. Non-trivial = at least two directives in the required closure; distinct = distinct (project bytes, config, and for multi-file runs the action list).",
        "C02" => "case = (generated acyclic project with stale files planted at every generated path, input selection, mode, K, seeded schedule); 4 schedules per project. Non-trivial = the required closure has at least one dependency edge and the run returned Ok; distinct = distinct hash of (project bytes, config, action list).",
        "C03" => "case = (generated digraph project incl. cyclic ones, input list with duplicates/aliases, K, seeded schedule). Non-trivial = at least 2 pool tasks for source files and at least one asserted marker; distinct = distinct hash of (project bytes, config, action list).",
        "C05" => "case = (generated digraph project with self-loops / 2-cycles / longer cycles / bystanders, input selection, K, seeded schedule). Non-trivial = the required closure contains a file that can reach a cycle; distinct = distinct hash of (project bytes, config, action list).",
        "C04" => "case = one cell of the grid {19 fault kinds} x {leaf, middle, root, sibling, outside the closure} x {modes in which the fault is meaningful}, instantiated on a seeded DAG project and run under a seeded schedule (2 schedules per instance); every 8th case is repeated through the real txtpp binary. Every 40th case is a syscall-level case: the k-th openat / read / write / unlink / rename of the real binary (one worker thread, modes build / --needed / verify on fresh and on tampered outputs / clean) fails with an errno (EIO, ENOSPC, EMFILE, EACCES, EINTR, EDQUOT, EBUSY, EXDEV), every position of a recorded fault-free run being a fault point (at most 18 per case, stratified over the calls); exit status 0 is only accepted with complete and correct products. Every case is non-trivial (carries a fault); distinct = distinct (project, fault, action lists).",
        "C11" => "case = (generated tree of depth <= 3 with the three source-name shapes, dotted stems, look-alikes and a directory with a txtpp-like name; input list of directories / files by either name / ./ and ../ forms / absolute paths / duplicates / missing targets; recursive flag; base directory equal to or different from the process cwd; build from an output-free tree or clean of a fully built tree; seeded schedule over scan and preprocess tasks). Non-trivial = at least two sources expected to be processed; distinct = distinct (tree, config, action list).",
        "C17" => "case = swarm draw of (1-3 sources at depth 0-3 below the base directory; process cwd = base / ancestor / unrelated; base given absolute or relative; shell default / bash -c / `printf %s\\n`; entry point library under the controller or the real binary; variant env (pwd, TXTPP_FILE), argv (random single/multi-line commands shown by the configured shell), status (exit codes, signals), cli-guard (TXTPP_FILE preset)). Every case is non-trivial; distinct = distinct (project, config, action list).",
        "C18" => "case = generated project (cyclic graphs included) whose sources, include targets and pre-existing generated files are mutated at token level (directive fragments, prefixes, Unicode blanks, tag names, path fragments) and byte level (invalid UTF-8, NUL, lone CR, deleted newlines, 256 KiB lines, empty files), run in one or two modes with num_threads in 0..16, recursion on/off, shell in {echo, false, non-existent} under a seeded schedule. Non-trivial = at least two pool tasks; distinct = distinct (project bytes, config, action list).",
        "C06" => "case = history (build; verify; one disturbance: single-byte tamper / insert / delete / append / truncate / remove of an output in or outside the closure, trailing-newline flag flip, or source edit; verify), every invocation under its own seeded schedule. Non-trivial = a verify that must fail; distinct = distinct (project, history, action lists).",
        "C07" => "case = history (optional build; optional removal of generated files; clean; clean again) on projects with and without directive errors, every invocation under a seeded schedule, whole-tree snapshots before/after. Every clean run is non-trivial; distinct = distinct (project, history, action lists, op index).",
        "C08" => "case = history ending in a build whose result is compared with the same build (same schedule seed) from a pristine tree; pre-states: every generated path independently absent/stale/empty/prefix/random (valid and invalid UTF-8); build-build; needed-build; crash image at a seeded scheduler step with files of the interrupted action torn (old/empty/prefix/full), optionally a needed-build on the image; histories that first build, interrupt or --needed-build an earlier version of the sources (edited text, or a directive that fails and is then repaired); an eighth of the projects fail (only verdicts are compared then). Every 40th case is a syscall-level case: the real binary (one worker thread) is killed on entry to the k-th openat / write / rename / unlink of a recorded build or --needed run (strace), from a pristine, built or earlier-version tree, and a plain build (optionally a --needed build first) must then give what the build from a pristine tree gives. distinct = distinct (project, history, action lists).",
        "C09" => "case = history (build; 0-3 edits/tamperings/deletions; optional verify; sentinel mtimes; checkpoint) then twin runs build and --needed from the identical pre-state under the same schedule seed. Every 60th case is a syscall-level case: the real binary (one worker thread) is killed on entry to the k-th openat / write / rename / unlink of a recorded run (strace), and from the tree the kill left --needed and a normal build must agree in verdict and bytes; in every other such case an errno is injected into a run on an up-to-date tree and nothing that held the right bytes may get a new inode or time stamp. Non-trivial = at least one generated file kept untouched and at least one brought up to date in the same case.",
        "C10" => "case = history of 1-4 invocations in modes build/needed/verify/clean on projects with decoy files and (one third) an erroneous source, whole-tree snapshot diff (bytes, inode, mtime) around every invocation. Every 60th case is a syscall-level case: the k-th openat / read / write / getdents64 / unlink / rename of the real binary (one worker thread; build, --needed, verify, clean of a built and of a never-built tree) fails with an errno and the same write-set rules are evaluated on the tree around that run. Non-trivial = an invocation that changed at least one path.",
        _ => "",
    }
}

pub fn per_project(prop: &str) -> u64 {
    match prop {
        "C17" | "C18" => 1,
        "C01" | "C02" | "C03" | "C05" => 4,
        _ => 2,
    }
}

pub fn rng_for(seed: u64, prop: &str, index: u64, label: &str) -> Rng {
    Rng::new(crate::rng::mix(&[
        seed,
        crate::rng::hash_str(prop),
        index,
        crate::rng::hash_str(label),
    ]))
}

/// Property-neutral post-processing of a case outcome (panic hook contents etc.).
pub fn after_case(case: &Case, oc: &mut CaseOutcome, panics: &[String], stats: &mut Stats) {
    if !panics.is_empty() {
        stats.add("panics.observed", panics.len() as u64);
    }
    if case.property == "C18" {
        if let Some(p) = panics.first() {
            oc.violate("C18", "panic", format!("a thread panicked: {p}"));
        }
    }
}

/// Reach probes that must fire at least once per batch on the unchanged tree.
pub fn expected_probes(prop: &str) -> &'static [&'static str] {
    match prop {
        "C01" => &["c01.multi_file_runs", "c01.single_file_runs", "c01.spec_ok", "c01.spec_err", "c01.files_compared_exactly", "c01.files_compared_modulo_trailing_eol", "c01.multi_line_directives", "c01.directive.include", "c01.directive.after", "c01.directive.run", "c01.directive.temp", "c01.directive.tag", "c01.directive.write", "c01.directive.empty", "c01.error_kind.tag-prefix", "c01.error_kind.prefixless-empty", "c01.error_kind.temp-txtpp-mid"],
        "C02" => &[
            "probe.hasdeps_with_dep_already_done",
            "probe.hasdeps_all_deps_already_done",
            "probe.released_depender_with_2plus_deps",
            "probe.two_results_pending_at_poll",
            "probe.idle_poll_with_work_in_flight",
            "c02.probe_records_checked",
        ],
        "C03" => &[
            "probe.hasdeps_all_deps_already_done",
            "probe.two_results_pending_at_poll",
            "c03.markers_asserted",
        ],
        "C05" => &[
            "probe.cycle_len_1",
            "probe.cycle_len_2",
            "c05.bystanders_checked",
            "c05.runs_without_cycle",
        ],
        "C04" => &["fault.fired.F1-tag-while-listening", "fault.fired.F2-command-fails-after-deps", "fault.fired.F2-command-killed-by-signal", "fault.fired.F3-include-invalid-utf8", "fault.fired.F4-source-invalid-utf8", "fault.fired.F5a-output-is-directory", "fault.fired.F5b-output-dangling-symlink", "fault.fired.F6-output-dev-full", "probe.F6_enospc_surfaced", "fault.fired.F7a-temp-parent-missing", "fault.fired.F7b-temp-target-is-directory", "fault.fired.F7c-temp-target-unwritable", "fault.fired.F9-tampered-output", "fault.fired.F8-fsize-limit", "fault.F8_limit_not_reached", "c04.cli_runs", "sys.cases.errno", "sys.errno_runs_succeeded_and_checked", "sys.errno_runs_reported_failure", "c04.ok_runs_checked_against_reference", "probe.error_with_tasks_in_flight_drop_drains"],
        "C11" => &["c11.mode.build", "c11.mode.clean", "c11.base_differs_from_cwd", "c11.absolute_input", "c11.dotdot_input", "c11.unresolvable_inputs", "c11.successful_runs"],
        "C17" => &["c17.variant.env", "c17.variant.argv", "c17.variant.status", "c17.cli_guard_checked", "c17.cli_env_checked", "c17.cwd.base", "c17.cwd.ancestor", "c17.cwd.unrelated", "c17.base.relative", "c17.depth.0", "c17.depth.3", "c17.shell.configured"],
        "C18" => &["c18.mode.build", "c18.mode.needed", "c18.mode.verify", "c18.mode.clean", "c18.threads.0", "c18.threads.16", "c18.cases_with_invalid_utf8", "c18.cases_with_nul", "c18.cases_with_huge_line"],
        "C06" => &["c06.verify_expected_ok", "c06.verify_expected_err", "fault.F9_tamper.Flip", "fault.F9_tamper.Truncate", "fault.F9_tamper.Remove", "fault.F9_tamper.Append"],
        "C07" => &["c07.exact_restoration_checked"],
        "C08" => &["sys.cases.crash", "fault.sys.write.KILL", "fault.sys.openat.KILL", "fault.F11_crash_images", "probe.crash_image_with_task_in_flight", "fault.F11_torn_files", "fault.F10_prestate.invalid_utf8", "c08.variant.build-build", "c08.variant.needed-build"],
        "C09" => &["c09.files_kept_untouched", "c09.files_brought_up_to_date"],
        "C10" => &["c10.ops.clean.Ok", "c10.ops.verify.Err", "c10.ops.build.Err", "c10.ops.needed.Ok"],
        _ => &[],
    }
}

pub fn components(prop: &str) -> serde_json::Value {
    let mut real = vec![
        "Txtpp::run coordinator loop, DepManager, Progress, Drop (src/core/execute/mod.rs, src/core/util)",
        "threadpool crate and its OS threads, std::sync::mpsc channel",
        "preprocess and everything below it (directives, tag state, IO context)",
        "std::fs against a tmpfs scratch tree",
        "sh child processes for run directives",
    ];
    let mut simulated = vec![
        "choice of which parked thread proceeds (seeded scheduler over task begin / io point / task end / coordinator poll)",
        "the coordinator's 100 ms sleep (simulated clock)",
        "iteration order of released dependers and of scanned directory entries (seeded permutation)",
        "the console: stderr on /dev/null or /dev/full with Verbosity Quiet / Normal / Verbose (seeded per case)",
    ];
    if prop == "C04" || prop == "C08" || prop == "C09" || prop == "C10" {
        real.push("the txtpp binary built from src/main.rs without the verif feature, one worker thread, for the syscall-level cases (every 40th case; C09, C10: every 60th)");
        simulated.push("syscall-level faults in the real binary through strace(1): SIGKILL on entry to, or an errno from, the k-th openat / read / write / rename / unlink of the worker thread (every position of a recorded fault-free run, sampled above 18 per case)");
    }
    serde_json::json!({ "real": real, "simulated": simulated, "stubbed": [] })
}

pub fn assumptions(prop: &str) -> Vec<String> {
    let mut v = vec![
        "sampling, not proof: holds for the explored (project, schedule, fault) triples only".to_string(),
        "a pass of one file is atomic w.r.t. other actors at task granularity; a quarter of the runs park tasks at every output/temp write as well".to_string(),
        "hooks (cargo feature verif) only park threads and permute two unordered collections".to_string(),
    ];
    if prop != "C01" {
        v.push("R-seq reference uses txtpp's own preprocess() per file in dependency order: schedule-, history- and fault-independent text bugs are out of scope of this check".to_string());
    }
    v
}
