//! Helpers shared by the engines.
use crate::env::{rseq, Env, RSeq};
use crate::model::*;
use crate::rng::{fnv, mix, Rng};
use crate::spec::Analysis;
use crate::tree::{self, Snap};
use std::collections::BTreeSet;

#[derive(Default)]
pub struct Cache {
    key: u64,
    val: Option<RSeq>,
    pub hits: u64,
    pub misses: u64,
}

pub fn project_hash(p: &Project) -> u64 {
    let mut v = vec![];
    for e in &p.entries {
        match e {
            Entry::Dir { path } => {
                v.push(fnv(path.as_bytes()) ^ 1);
            }
            Entry::File { path, data } => {
                v.push(fnv(path.as_bytes()) ^ 2);
                v.push(fnv(&data.0));
            }
            Entry::Symlink { path, target } => {
                v.push(fnv(path.as_bytes()) ^ 3);
                v.push(fnv(target.as_bytes()));
            }
        }
    }
    mix(&v)
}

pub fn cfg_hash(c: &RunCfg) -> u64 {
    fnv(serde_json::to_string(c).unwrap_or_default().as_bytes())
}

/// R-seq for `set`, computed in the main tree from a pristine planting of `project`.
/// Leaves the tree in the post-reference state (callers re-plant).
pub fn rseq_cached(
    env: &Env,
    cache: &mut Cache,
    project: &Project,
    a: &Analysis,
    set: &BTreeSet<usize>,
    cfg: &RunCfg,
) -> RSeq {
    let mut kv = vec![
        project_hash(project),
        fnv(cfg.base.as_bytes()),
        cfg.trailing_newline as u64,
        fnv(cfg.shell.as_bytes()),
    ];
    for i in set {
        kv.push(*i as u64 + 1000);
    }
    let key = mix(&kv);
    if cache.key == key {
        if let Some(v) = &cache.val {
            cache.hits += 1;
            return v.clone();
        }
    }
    cache.misses += 1;
    tree::plant(&env.root, project);
    let r = rseq(
        env,
        &env.root,
        a,
        set,
        &cfg.base,
        txtpp::Mode::Build,
        cfg.trailing_newline,
        &cfg.shell,
    );
    cache.key = key;
    cache.val = Some(r.clone());
    r
}

/// A dirty pre-state for one generated path. None = absent.
pub fn dirty_bytes(rng: &mut Rng, fresh: Option<&[u8]>, allow_invalid: bool) -> Option<Vec<u8>> {
    let token = format!("STALE-{:08x}", rng.next() as u32);
    // the right bytes with one byte changed somewhere (same length; far from the start in big files)
    if rng.chance(1, 8) {
        if let Some(f) = fresh {
            if !f.is_empty() {
                let mut v = f.to_vec();
                let at = rng.below(v.len());
                v[at] = if v[at] == b'x' { b'y' } else { b'x' };
                return Some(v);
            }
        }
    }
    // the right text with the other line ending throughout
    if rng.chance(1, 12) {
        if let Some(f) = fresh {
            if f.contains(&b'\n') {
                let mut v = Vec::with_capacity(f.len() + 16);
                let crlf = f.windows(2).any(|w| w == b"\r\n");
                for (i, c) in f.iter().enumerate() {
                    if *c == b'\n' && !crlf {
                        v.push(b'\r');
                    }
                    if *c == b'\r' && crlf && f.get(i + 1) == Some(&b'\n') {
                        continue;
                    }
                    v.push(*c);
                }
                return Some(v);
            }
        }
    }
    let cls = rng.below(if allow_invalid { 7 } else { 5 });
    let mut v = match cls {
        0 => return None,
        1 => {
            if rng.chance(1, 3) {
                format!("{token}\r\nold content\r\n").into_bytes()
            } else {
                format!("{token}\nold content\n").into_bytes()
            }
        }
        2 => vec![],
        3 => {
            // prefix of the right bytes (at a character boundary)
            match fresh {
                Some(f) if !f.is_empty() => {
                    let mut cut = rng.below(f.len());
                    while cut > 0 && (f[cut] & 0xC0) == 0x80 {
                        cut -= 1;
                    }
                    f[..cut].to_vec()
                }
                _ => format!("{token}").into_bytes(),
            }
        }
        4 => {
            let n = rng.range(1, 40);
            let alphabet: Vec<char> = "ab \n\r\tTXTPP#é✓-".chars().collect();
            let s: String = (0..n).map(|_| *rng.pick(&alphabet)).collect();
            s.into_bytes()
        }
        5 => {
            // prefix cut anywhere, possibly inside a multi-byte character
            match fresh {
                Some(f) if !f.is_empty() => f[..rng.below(f.len())].to_vec(),
                _ => vec![0xC3],
            }
        }
        _ => {
            let n = rng.range(1, 30);
            let mut b: Vec<u8> = (0..n).map(|_| (rng.next() & 0xff) as u8).collect();
            b.push(0xff);
            b
        }
    };
    if Some(v.as_slice()) == fresh {
        v.extend_from_slice(token.as_bytes());
    }
    Some(v)
}

/// Plant dirty pre-states at every generated path. Returns the number of paths made stale.
pub fn plant_dirty(
    env: &Env,
    rng: &mut Rng,
    a: &Analysis,
    r: &RSeq,
    allow_invalid: bool,
    per_mille: usize,
) -> usize {
    let mut n = 0;
    for g in a.gen_all() {
        if !rng.chance(per_mille, 1000) {
            continue;
        }
        let fresh = r.files.get(&g).map(|v| v.as_slice());
        let p = env.root.join(crate::tree::osp(&g));
        match dirty_bytes(rng, fresh, allow_invalid) {
            None => {
                let _ = std::fs::remove_file(&p);
            }
            Some(b) => {
                // never create directories: the environment must stay what the reference saw
                let parent_ok = p.parent().map(|d| d.is_dir()).unwrap_or(false);
                if parent_ok && !p.is_dir() {
                    let _ = std::fs::write(&p, b);
                    n += 1;
                }
            }
        }
    }
    n
}

/// Compare the generated files of source `i` in `snap` with R-seq. Returns a description of
/// the first difference.
pub fn compare_generated(a: &Analysis, i: usize, snap: &Snap, r: &RSeq) -> Option<String> {
    let s = &a.sources[i];
    if r.ok.get(&i) != Some(&true) {
        // the reference itself failed on this file: no expectation
        return None;
    }
    for g in s.generated() {
        let want = r.files.get(&g);
        let got = tree::file_bytes(snap, &g);
        match (want, got) {
            (Some(w), Some(gb)) => {
                if w.as_slice() != gb {
                    return Some(format!(
                        "{g} (generated by {}) differs from the one-file-at-a-time reference: got {} bytes {:?}, want {} bytes {:?}",
                        s.path,
                        gb.len(),
                        preview(gb),
                        w.len(),
                        preview(w)
                    ));
                }
            }
            (Some(w), None) => {
                return Some(format!(
                    "{g} (generated by {}) is missing; reference has {} bytes",
                    s.path,
                    w.len()
                ));
            }
            (None, _) => {
                // the reference did not produce it (e.g. temp directive never reached): no claim
            }
        }
    }
    None
}

pub fn preview(b: &[u8]) -> String {
    let s = String::from_utf8_lossy(b);
    let mut out: String = s.chars().take(120).collect();
    if s.chars().count() > 120 {
        out.push('…');
    }
    out
}

/// Write the schedule actually taken into the case as a strict script.
pub fn record_script(case: &mut Case, op_index: usize, actions: &[String]) {
    if let Some(Op::Run { sched, .. }) = case.ops.get_mut(op_index) {
        sched.script = Some(actions.to_vec());
        sched.strict = true;
    }
}

pub fn first_run(case: &Case) -> Option<(&RunCfg, &Sched)> {
    case.ops.iter().find_map(|o| match o {
        Op::Run { cfg, sched, .. } => Some((cfg, sched)),
        _ => None,
    })
}

pub fn tail(log: &[String], n: usize) -> Vec<String> {
    let k = log.len().saturating_sub(n);
    log[k..].to_vec()
}


/// Exit status of a child process, or None if it did not finish within `secs` (it is killed).
pub fn status_with_timeout(c: &mut std::process::Command, secs: u64) -> Result<Option<i32>, String> {
    let mut child = c.spawn().map_err(|e| format!("cannot start process: {e}"))?;
    // counted in 5 ms sleeps, not in elapsed wall time (robust against a suspended machine)
    let mut ticks: u64 = 0;
    loop {
        match child.try_wait() {
            Ok(Some(st)) => return Ok(Some(st.code().unwrap_or(-1))),
            Ok(None) => {
                ticks += 1;
                if ticks >= secs * 200 {
                    let _ = child.kill();
                    let _ = child.wait();
                    return Ok(None);
                }
                std::thread::sleep(std::time::Duration::from_millis(5));
            }
            Err(e) => return Err(format!("wait failed: {e}")),
        }
    }
}
