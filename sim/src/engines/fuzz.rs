//! Fuzz engine (C18): arbitrary bytes and configurations must never make a thread panic, the
//! process abort, or the run hang. Fuzzed command text is never executed (shell = echo / false).
use super::common::*;
use super::history::exec;
use super::{rng_for, Ctx, Tier};
use crate::ctl::Verdict;
use crate::gen::{self, GraphOpts};
use crate::model::*;
use crate::rng::{mix, Rng};
use crate::spec::analyze;
use crate::stats::CaseOutcome;
use crate::tree;
use std::collections::BTreeMap;

const TOKENS: [&str; 40] = [
    "TXTPP#", "TXTPP#", "TXTPP", "#", "include", "after", "run", "temp", "tag", "write", "includes", "ru",
    " ", "  ", "\t", "-", "// ", "# ", "/* ", "*/", "é", "✓", "\u{a0}", "\u{2003}", "x", "T1", "T12", "AB", "BA",
    "f0.txt", "plain1.txt", "../", "./", "sub/", "t.tmp", "a.txtpp", "a.txtpp.b", ".", "", "\u{feff}",
];

fn fuzz_opts() -> GraphOpts {
    GraphOpts {
        max_n: 4,
        cyclic: true,
        markers: false,
        probes: false,
        temps: true,
        big: false,
        dotted: true,
        absolute: true,
        decoys: true,
        mark_all: false,
        sized: true,
        wide: true,
        mega: false,
        symlinks: false,
        read_above: true,
        scratch_dir: false,
    }
}

fn random_line(rng: &mut Rng) -> Vec<u8> {
    let n = rng.range(0, 8);
    let mut s = String::new();
    for _ in 0..n {
        s.push_str(*rng.pick(&TOKENS));
    }
    s.into_bytes()
}

fn mutate_bytes(rng: &mut Rng, data: &mut Vec<u8>) {
    let n_mut = rng.range(1, 6);
    for _ in 0..n_mut {
        // line starts
        let starts: Vec<usize> = std::iter::once(0)
            .chain(data.iter().enumerate().filter(|(_, b)| **b == b'\n').map(|(i, _)| i + 1))
            .collect();
        let pos = if data.is_empty() { 0 } else { rng.below(data.len() + 1) };
        match rng.below(18) {
            0 => {
                // insert a token-built line at a line start
                let at = *rng.pick(&starts);
                let mut l = random_line(rng);
                l.push(b'\n');
                data.splice(at..at, l);
            }
            1 => {
                // insert tokens in the middle of a line
                let t = rng.pick(&TOKENS).as_bytes().to_vec();
                data.splice(pos..pos, t);
            }
            2 => {
                // invalid UTF-8
                let bad: &[u8] = *rng.pick(&[&[0xffu8][..], &[0xc3][..], &[0xe2, 0x82][..], &[0xf0, 0x9f, 0x98][..], &[0x80][..]]);
                data.splice(pos..pos, bad.to_vec());
            }
            3 => data.insert(pos, 0),
            4 => data.insert(pos, b'\r'),
            5 => {
                // delete a byte (often a newline)
                if !data.is_empty() {
                    let nl: Vec<usize> = data.iter().enumerate().filter(|(_, b)| **b == b'\n').map(|(i, _)| i).collect();
                    let at = if !nl.is_empty() && rng.chance(1, 2) { *rng.pick(&nl) } else { rng.below(data.len()) };
                    data.remove(at);
                }
            }
            6 => {
                // duplicate a line
                if starts.len() >= 2 {
                    let k = rng.below(starts.len() - 1);
                    let l = data[starts[k]..starts[k + 1]].to_vec();
                    let at = *rng.pick(&starts);
                    data.splice(at..at, l);
                }
            }
            7 => {
                // swap two lines' starts: splice a random prefix in front of a line
                let at = *rng.pick(&starts);
                let pf = rng.pick(&["é ", "✓✓", "\u{a0}", "  ", "\t", "// ", "\u{2003}\u{2003}", "-"]).as_bytes().to_vec();
                data.splice(at..at, pf);
            }
            8 => {
                // a continuation-looking line after a directive: spaces as long as a prefix might be
                let at = *rng.pick(&starts);
                let k = rng.range(0, 6);
                let mut l = " ".repeat(k).into_bytes();
                l.extend_from_slice(rng.pick(&["é", "x", "", "✓ tail", "TXTPP#"]).as_bytes());
                l.push(b'\n');
                data.splice(at..at, l);
            }
            9 => {
                // huge line
                if rng.chance(1, 6) {
                    let at = *rng.pick(&starts);
                    let mut l = vec![b'a'; 256 * 1024];
                    if rng.chance(1, 2) {
                        l.splice(0..0, b"-TXTPP#write ".to_vec());
                    }
                    l.push(b'\n');
                    data.splice(at..at, l);
                }
            }
            10 => {
                // CRLF on one line
                let nl: Vec<usize> = data.iter().enumerate().filter(|(_, b)| **b == b'\n').map(|(i, _)| i).collect();
                if !nl.is_empty() {
                    data.insert(*rng.pick(&nl), b'\r');
                }
            }
            11 => data.clear(),
            12 => {
                // drop the final newline
                if data.last() == Some(&b'\n') {
                    data.pop();
                }
            }
            13 => {
                // directive with a fuzzed argument
                let at = *rng.pick(&starts);
                let name = *rng.pick(&["include", "after", "temp", "tag", "run", "write", ""]);
                let arg: String = (0..rng.range(0, 3)).map(|_| *rng.pick(&TOKENS)).collect();
                let pf = *rng.pick(&["", "-", "é", "// ", "\u{a0}"]);
                let ws = *rng.pick(&["", " ", "\t", "\u{2003}"]);
                let l = format!("{ws}{pf}TXTPP#{name} {arg}\n");
                data.splice(at..at, l.into_bytes());
            }
            15 => {
                // a multi-line-capable directive with a non-ASCII prefix, followed by a line of
                // spaces that is about as long as the prefix (in characters or in bytes)
                let at = *rng.pick(&starts);
                let pf = *rng.pick(&["é ", "✓", "→ ", "// → ", "ü", "«»", "\u{a0}x"]);
                let name = *rng.pick(&["write", "run", "temp", ""]);
                let ws = *rng.pick(&["", " ", "\t"]);
                let k = rng.range(pf.chars().count().saturating_sub(1), pf.len() + 1);
                let tail = *rng.pick(&["", "é", "x", "✓y"]);
                let l = format!("{ws}{pf}TXTPP#{name} arg\n{ws}{}{tail}\n", " ".repeat(k));
                data.splice(at..at, l.into_bytes());
            }
            16 => {
                // two live tags, a suffix of one being a prefix of the other, used overlapping
                let at = *rng.pick(&starts);
                let (a, b, l) = *rng.pick(&[("NAME_", "_ID", "user=NAME_ID"), ("AB", "BA", "xABAy"), ("é✓", "✓é", "é✓é")]);
                let t = format!("TXTPP#tag {a}\n-TXTPP#write v1\nTXTPP#tag {b}\n-TXTPP#write v2\n{l}\n");
                data.splice(at..at, t.into_bytes());
            }
            14 => {
                // flip a byte
                if !data.is_empty() {
                    let at = rng.below(data.len());
                    data[at] ^= 1 << rng.below(8);
                }
            }
            _ => {
                let t = random_line(rng);
                data.splice(pos..pos, t);
            }
        }
    }
}

/// Path arguments must not leave the scratch tree: no absolute paths except below @ROOT@, and at
/// most three `..` per line (the project sits four directories deep inside the scratch root).
fn sanitise(data: &mut Vec<u8>) {
    let mut out: Vec<u8> = Vec::with_capacity(data.len());
    for line in data.split_inclusive(|b| *b == b'\n') {
        let mut l = line.to_vec();
        {
            let has_dir = l.windows(6).any(|w| w == b"TXTPP#");
            if has_dir {
                // a '/' that could begin an absolute argument (anything but a path character or the
                // @ROOT@ token in front of it; Unicode blanks are trimmed by txtpp too)
                for i in 0..l.len() {
                    if l[i] == b'/' {
                        let prev_path_char = i > 0
                            && (l[i - 1].is_ascii_alphanumeric() || matches!(l[i - 1], b'.' | b'_' | b'-'));
                        let root_tok = i >= 6 && &l[i - 6..i] == b"@ROOT@";
                        if !(prev_path_char || root_tok) {
                            l[i] = b'_';
                        }
                    }
                }
            }
            // cap the number of ".." in the line
            let mut seen = 0;
            let mut i = 0;
            while i + 1 < l.len() {
                if l[i] == b'.' && l[i + 1] == b'.' {
                    seen += 1;
                    if seen > 3 {
                        l[i] = b'_';
                    }
                    i += 2;
                } else {
                    i += 1;
                }
            }
        }
        out.extend_from_slice(&l);
    }
    *data = out;
}

pub fn gen(prop: &str, seed: u64, index: u64, _tier: Tier) -> Case {
    let mut rng = rng_for(seed, prop, index, "case");
    let o = fuzz_opts();
    let n = rng.range(1, 4);
    let cyclic = rng.chance(1, 4);
    let e = gen::gen_edges(&mut rng, n, cyclic);
    let mut p = gen::gen_graph_project(&mut rng, &o, n, &e);
    let a = analyze(&p);
    // fuzz sources
    for s in &a.sources {
        if rng.chance(4, 5) {
            let mut d = p.file(&s.path).map(|b| b.0.clone()).unwrap_or_default();
            mutate_bytes(&mut rng, &mut d);
            sanitise(&mut d);
            p.set_file(&s.path, B(d));
        }
    }
    // temp directives whose target is a generated file of the project itself (the source's own
    // output, another source's output), and blocks of very many consecutive directive lines
    for s in &a.sources {
        if rng.chance(1, 8) {
            let mut d = p.file(&s.path).map(|b| b.0.clone()).unwrap_or_default();
            let target = if rng.chance(2, 3) {
                crate::names::file_name(&s.out).to_string()
            } else {
                let o = &a.sources[rng.below(a.n())];
                gen::rel_path(&s.dir, &o.out)
            };
            let body = *rng.pick(&["", "-body\n", "-file 0 begins\n", "-b1\n-b2\n"]);
            let l = format!("-TXTPP#temp {target}\n{body}~\n");
            let starts: Vec<usize> = std::iter::once(0)
                .chain(d.iter().enumerate().filter(|(_, b)| **b == b'\n').map(|(i, _)| i + 1))
                .collect();
            let at = *rng.pick(&starts);
            d.splice(at..at, l.into_bytes());
            p.set_file(&s.path, B(d));
        }
    }
    if a.n() > 0 && rng.chance(1, 30) {
        let s = &a.sources[rng.below(a.n())];
        let mut d = p.file(&s.path).map(|b| b.0.clone()).unwrap_or_default();
        let n = *rng.pick(&[20_000usize, 60_000]);
        let mut block = String::with_capacity(n * 8);
        match rng.below(4) {
            0 => {
                block.push_str("-TXTPP#temp many_lines.tmp\n");
                for k in 0..n {
                    block.push_str(&format!("-l{k}\n"));
                }
            }
            1 => {
                block.push_str("// TXTPP#write first\n");
                for _ in 0..n {
                    block.push_str("// w\n");
                }
            }
            2 => {
                for _ in 0..n {
                    block.push_str("TXTPP#\n");
                }
            }
            _ => {
                block.push_str("# TXTPP# comment\n");
                for _ in 0..n {
                    block.push_str("# more\n");
                }
            }
        }
        d.splice(0..0, block.into_bytes());
        p.set_file(&s.path, B(d));
    }
    // fuzz include targets
    for path in ["plain1.txt", "sub/plain2.txt", "lib/plain3.txt", "plain4.txt"] {
        if rng.chance(1, 3) {
            let mut d = p.file(path).map(|b| b.0.clone()).unwrap_or_default();
            mutate_bytes(&mut rng, &mut d);
            p.set_file(path, B(d));
        }
    }
    // garbage at generated paths (existing outputs / temp files), from the un-fuzzed analysis
    for g in a.gen_all() {
        if rng.chance(1, 3) {
            let mut d = random_line(&mut rng);
            mutate_bytes(&mut rng, &mut d);
            p.add_file(&g, B(d));
        }
    }
    // stray files beside generated paths (what an interrupted run of some other version, an
    // editor or a tool may leave behind)
    for g in a.gen_all() {
        if rng.chance(1, 10) {
            let ext = *rng.pick(&[".lock", ".tmp", ".part", "~", ".bak", ".swp", ".new"]);
            let path = format!("{g}{ext}");
            if p.file(&path).is_none() {
                p.add_file(&path, B::s("stray\n"));
            }
        }
    }
    // 150 KiB of text for the flooding shell
    let mut flood = String::new();
    while flood.len() < 150 * 1024 {
        flood.push_str("flood flood flood flood flood flood flood flood flood flood flood flood\n");
    }
    p.add_file("flood.txt", B(flood.into_bytes()));
    let a2 = analyze(&p);
    let inputs = if a2.n() > 0 && rng.chance(1, 3) {
        let s = &a2.sources[rng.below(a2.n())];
        vec![if rng.chance(1, 2) { s.out.clone() } else { s.path.clone() }]
    } else {
        vec![".".to_string()]
    };
    let modes = [ModeS::Build, ModeS::Needed, ModeS::Verify, ModeS::Clean];
    let mut ops = vec![];
    let n_ops = if rng.chance(1, 4) { 2 } else { 1 };
    // a sixth of the cases: a build, then verify with the same options
    let build_verify = rng.chance(1, 6);
    let bv_shell = *rng.pick(&["echo", "echo -n", "false"]);
    let bv_tn = rng.chance(2, 3);
    for k in 0..(if build_verify { 2 } else { n_ops }) {
        let mut cfg = RunCfg::simple(*rng.pick(&modes), "", inputs.clone(), 1);
        cfg.k = *rng.pick(&[0usize, 1, 1, 2, 3, 4, 5, 8, 13, 16]);
        cfg.recursive = rng.chance(2, 3);
        cfg.trailing_newline = rng.chance(2, 3);
        // fuzzed command text is never executed
        cfg.shell = (*rng.pick(&[
            "echo",
            "echo",
            "echo -n",
            "false",
            "/nonexistent/shell -c",
            "echo   ",
            // a "shell" that ignores the command and floods stdout (more than a pipe buffer holds)
            "cat @ROOT@/flood.txt",
            // a "shell" that ignores the command and reads its standard input
            "sh -c cat",
            // a "shell" that ignores the command, succeeds, and says something on stderr
            "sh -c echo>&2",
        ]))
        .to_string();
        if build_verify {
            cfg.mode = if k == 0 {
                if rng.chance(1, 3) {
                    ModeS::Needed
                } else {
                    ModeS::Build
                }
            } else {
                ModeS::Verify
            };
            cfg.shell = bv_shell.to_string();
            cfg.trailing_newline = bv_tn;
            if cfg.k == 0 {
                cfg.k = 2;
            }
        }
        let s = rng.next();
        ops.push(Op::Run {
            cfg,
            sched: gen::pick_sched(&mut rng, s),
            label: format!("run{k}"),
        });
    }
    Case {
        property: prop.to_string(),
        variant: "fuzz".into(),
        seed,
        index,
        project: p,
        ops,
        params: BTreeMap::new(),
    }
}

pub fn run(case: &Case, ctx: &mut Ctx) -> CaseOutcome {
    let mut out = CaseOutcome::default();
    // fuzzed temp directives may create files above the project root: start from a clean slate
    ctx.env.reset_tree();
    let mut rec = case.clone();
    let h = exec(case, ctx, &mut rec);
    out.poisoned = h.poisoned;
    if let Some(d) = &h.diverged {
        out.harness_error = Some(format!("replay divergence: {d}"));
        return out;
    }
    out.recorded = Some(rec);
    let mut dig = vec![];
    let mut nontrivial = false;
    for r in &h.runs {
        dig.push(r.sim.log_hash());
        dig.push(tree::snap_hash(&r.after));
        out.trace.push(format!("--- {} ({}, k={}) verdict {}", r.label, r.cfg.mode.name(), r.cfg.k, r.sim.verdict.short()));
        out.trace.extend(tail(&r.sim.log, 30));
        ctx.stats.count(&format!("c18.mode.{}", r.cfg.mode.name()));
        ctx.stats.count(&format!("c18.threads.{}", r.cfg.k));
        if r.sim.n_tasks >= 2 {
            nontrivial = true;
        }
        match &r.sim.verdict {
            Verdict::Panic(m) => out.violate(
                "C18",
                if r.cfg.k == 0 { "panic-zero-threads" } else { "panic" },
                format!("[{} k={}] the thread calling Txtpp::run panicked: {m}", r.cfg.mode.name(), r.cfg.k),
            ),
            Verdict::Hung => {
                let wp = if r.sim.worker_panics.is_empty() {
                    String::new()
                } else {
                    format!(" after worker panic in {:?}", r.sim.worker_panics)
                };
                out.violate(
                    "C18",
                    if r.sim.worker_panics.is_empty() { "hang" } else { "worker-panic-then-hang" },
                    format!("[{} k={}] {}{wp}", r.cfg.mode.name(), r.cfg.k, r.sim.hang.clone().unwrap_or_default()),
                );
            }
            _ => {
                if !r.sim.late_tasks.is_empty() && !r.sim.worker_panics.is_empty() {
                    out.violate(
                        "C18",
                        "worker-panic-after-return",
                        format!(
                            "[{} k={}] Txtpp::run returned while pool tasks {:?} were still in their job; released, {:?} panicked",
                            r.cfg.mode.name(),
                            r.cfg.k,
                            r.sim.late_tasks,
                            r.sim.worker_panics
                        ),
                    );
                }
                if !r.sim.worker_panics.is_empty() {
                    out.violate("C18", "worker-panic", format!("worker task(s) panicked: {:?}", r.sim.worker_panics));
                }
            }
        }
    }
    out.digest = mix(&dig);
    if nontrivial {
        ctx.stats.nontrivial.insert(mix(&[project_hash(&case.project), out.digest]));
    }
    let invalid = case.project.files().any(|(_, d)| std::str::from_utf8(&d.0).is_err());
    if invalid {
        ctx.stats.count("c18.cases_with_invalid_utf8");
    }
    if case.project.files().any(|(_, d)| d.0.len() > 200_000) {
        ctx.stats.count("c18.cases_with_huge_line");
    }
    if case.project.files().any(|(_, d)| d.0.contains(&0)) {
        ctx.stats.count("c18.cases_with_nul");
    }
    if ctx.stats.samples.len() < 3 && case.index % 71 == 0 {
        let a = analyze(&case.project);
        ctx.stats.samples.push(serde_json::json!({
            "index": case.index,
            "sources": a.sources.iter().map(|s| format!("{} ({} bytes)", s.path, case.project.file(&s.path).map(|d| d.0.len()).unwrap_or(0))).collect::<Vec<_>>(),
            "first_source_head": a.sources.first().and_then(|s| case.project.file(&s.path)).map(|d| preview(&d.0)),
            "runs": h.runs.iter().map(|r| format!("{} k={} shell={:?} -> {}", r.cfg.mode.name(), r.cfg.k, r.cfg.shell, r.sim.verdict.short())).collect::<Vec<_>>(),
        }));
    }
    out
}
