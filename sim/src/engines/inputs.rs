//! Inputs engine (C11): which sources get processed for a given input list, and where their
//! outputs land. Directory scans and first passes are pool tasks whose results interleave.
use super::common::*;
use super::history::{err_brief, exec};
use super::{rng_for, Ctx, Tier};
use crate::ctl::Verdict;
use crate::gen::{self, rel_path, Resolved};
use crate::model::*;
use crate::rng::{mix, Rng};
use crate::spec::analyze;
use crate::stats::CaseOutcome;
use crate::tree::{self, Change, Node};
use std::collections::{BTreeMap, BTreeSet};

/// Dotted stems with the `.txtpp.ext` shape (`a.b.txtpp.c`): part of C11's own domain.
pub const DOTTED: bool = true;

fn gen_tree(rng: &mut Rng, with_commands: bool) -> (Project, String) {
    let mut p = Project::default();
    // base directory: the tree root, or "p" with a sibling "q" reachable through ../
    let base = if rng.chance(1, 3) { "p".to_string() } else { String::new() };
    let pre = |d: &str| -> String {
        if base.is_empty() {
            d.to_string()
        } else if d.is_empty() {
            base.clone()
        } else {
            format!("{base}/{d}")
        }
    };
    let mut dirs: Vec<String> = vec![pre("")];
    let _ = &mut dirs;
    // "ab" and "x/y2": siblings whose names extend a neighbour's name (string prefix, not ancestor)
    // ".cfg": a directory whose name begins with a dot is a directory like any other
    for d in ["a", "a/b", "a/b/c", "x", "x/y", "e.txtpp", "ab", "x/y2", ".cfg", "a/.hid"] {
        if rng.chance(3, 5) {
            // parents come along
            let mut cur = String::new();
            for part in d.split('/') {
                cur = if cur.is_empty() { part.to_string() } else { format!("{cur}/{part}") };
                let full = pre(&cur);
                if !dirs.contains(&full) {
                    dirs.push(full);
                }
            }
        }
    }
    if !base.is_empty() {
        dirs.push("q".to_string());
        if rng.chance(1, 2) {
            dirs.push("q/r".to_string());
        }
        if rng.chance(1, 2) {
            // a sibling of the base directory whose name extends the base's name
            dirs.push("p2".to_string());
        }
    }
    for d in &dirs {
        p.add_dir(d);
    }
    if dirs.contains(&pre("a")) && rng.chance(1, 3) {
        // a symlinked directory beside the real one
        p.entries.push(Entry::Symlink {
            path: pre("lnk"),
            target: "a".into(),
        });
    }
    let n = rng.range(1, 7);
    let mut srcs: Vec<String> = vec![];
    let mut outs: BTreeSet<String> = BTreeSet::new();
    for i in 0..n {
        let d = rng.pick(&dirs).clone();
        let stem = match rng.below(7) {
            // a name that begins with a dot (`.env.txtpp` builds `.env`)
            6 => format!(".s{i}"),
            0 if DOTTED => format!("s{i}.v{}", rng.below(3)),
            1 if DOTTED => format!("s{i}.tar"),
            _ => format!("s{i}"),
        };
        let name = match rng.below(3) {
            0 => format!("{stem}.txt.txtpp"),
            1 => format!("{stem}.txtpp.txt"),
            _ => format!("{stem}.txtpp"),
        };
        let path = if d.is_empty() { name } else { format!("{d}/{name}") };
        let out = crate::names::out_path(&path).unwrap();
        if outs.contains(&out) {
            continue;
        }
        outs.insert(out);
        srcs.push(path);
    }
    let out_of: Vec<String> = srcs.iter().map(|s| crate::names::out_path(s).unwrap()).collect();
    for (i, s) in srcs.iter().enumerate() {
        let mut text = format!("source {i}\n");
        // one optional dependency on a later source
        if i + 1 < srcs.len() && rng.chance(1, 3) {
            let j = rng.range(i + 1, srcs.len() - 1);
            let kw = if rng.chance(1, 4) { "after" } else { "include" };
            text.push_str(&format!(
                "TXTPP#{kw} {}\n",
                rel_path(tree::parent_rel(s), &out_of[j])
            ));
        }
        if with_commands && rng.chance(1, 2) {
            text.push_str(&format!(
                "-TXTPP#run printf 'm s{i}\\n' >> \"${{VLOG:?}}/m\"\n"
            ));
        }
        text.push_str("end\n");
        p.add_file(s, B(text.into_bytes()));
    }
    // links to source files, in a directory of their own or beside other sources; a directory
    // link that leaves its subtree; a directory link back to an ancestor
    if rng.chance(1, 4) && !srcs.is_empty() {
        let ld = pre("links");
        p.add_dir(&ld);
        dirs.push(ld.clone());
        for (i, sp) in srcs.iter().enumerate() {
            if rng.chance(1, 2) {
                let name = match rng.below(3) {
                    0 => format!("l{i}.txt.txtpp"),
                    1 => format!("l{i}.txtpp.md"),
                    _ => format!("l{i}.txtpp"),
                };
                let d = if rng.chance(2, 3) { ld.clone() } else { rng.pick(&dirs).clone() };
                let path = if d.is_empty() { name } else { format!("{d}/{name}") };
                p.entries.push(Entry::Symlink {
                    target: rel_path(&d, sp),
                    path,
                });
            }
        }
    }
    if rng.chance(1, 6) && dirs.contains(&pre("x/y")) && dirs.contains(&pre("a")) {
        p.entries.push(Entry::Symlink {
            path: pre("x/y/out"),
            target: "../../a".into(),
        });
    }
    if rng.chance(1, 6) && dirs.contains(&pre("a/b")) {
        p.entries.push(Entry::Symlink {
            path: pre("a/b/up"),
            target: "../..".into(),
        });
    }
    // sources whose names are not valid UTF-8 (legal on Unix; spelled with U+F700+byte, see
    // tree::osp). Text cannot name them, so they are only ever found by directory scans.
    if rng.chance(1, 4) {
        for k in 0..rng.range(1, 2) {
            let d = rng.pick(&dirs).clone();
            let name = match rng.below(3) {
                0 => format!("n{k}caf\u{F7E9}.txtpp.txt"),
                1 => format!("n{k}\u{F7FF}x.md.txtpp"),
                _ => format!("n{k}\u{F780}\u{F7C3}.txtpp"),
            };
            let path = if d.is_empty() { name } else { format!("{d}/{name}") };
            let out = crate::names::out_path(&path).unwrap();
            if outs.contains(&out) {
                continue;
            }
            outs.insert(out);
            let mut text = format!("raw name {k}\n");
            if with_commands && rng.chance(1, 2) {
                text.push_str(&format!("-TXTPP#run printf 'm n{k}\\n' >> \"${{VLOG:?}}/m\"\n"));
            }
            p.add_file(&path, B(text.into_bytes()));
        }
    }
    // look-alikes and decoys
    let decoys = [
        "txtpp",
        ".txtpp",
        "a.txtpp.b.c",
        "notes.txtppp",
        "y.txt",
        "README",
        "s0.txt.txtpp.bak",
        "txtpp.txt",
    ];
    for d in decoys {
        if rng.chance(1, 2) {
            let dir = rng.pick(&dirs).clone();
            let path = if dir.is_empty() { d.to_string() } else { format!("{dir}/{d}") };
            if p.file(&path).is_none() && !outs.contains(&path) && !srcs.contains(&path) {
                p.add_file(&path, B::s("decoy\n"));
            }
        }
    }
    (p, base)
}

fn gen_input_list(rng: &mut Rng, p: &Project, base: &str) -> Vec<String> {
    let a = analyze(p);
    let dirs: Vec<String> = p
        .entries
        .iter()
        .filter_map(|e| match e {
            Entry::Dir { path } => Some(path.clone()),
            _ => None,
        })
        .collect();
    let rel = |t: &str| -> String {
        let r = rel_path(base, t);
        if r.is_empty() {
            ".".to_string()
        } else {
            r
        }
    };
    // sources that an input string can name (names that are not UTF-8 cannot be spelled)
    let mut a = a;
    a.sources.retain(|s| !s.path.chars().any(|c| ('\u{F780}'..='\u{F7FF}').contains(&c)));
    let n = rng.range(1, 4);
    let mut v: Vec<String> = vec![];
    for _ in 0..n {
        let item = match rng.below(15) {
            0 | 1 => ".".to_string(),
            2 | 3 => {
                if dirs.is_empty() {
                    ".".into()
                } else {
                    let d = rng.pick(&dirs);
                    let r = if d == base { ".".to_string() } else { rel(&format!("{d}/.")).trim_end_matches("/.").to_string() };
                    if rng.chance(1, 4) {
                        format!("{r}/")
                    } else {
                        r
                    }
                }
            }
            4 | 5 if a.n() > 0 => rel(&a.sources[rng.below(a.n())].out),
            6 | 7 if a.n() > 0 => rel(&a.sources[rng.below(a.n())].path),
            8 if a.n() > 0 => format!("./{}", rel(&a.sources[rng.below(a.n())].out)),
            9 if a.n() > 0 => {
                let s = &a.sources[rng.below(a.n())];
                format!("@ROOT@/{}", if rng.chance(1, 2) { &s.out } else { &s.path })
            }
            10 if a.n() > 0 => {
                // through a directory and back
                let s = &a.sources[rng.below(a.n())];
                let d = tree::parent_rel(&s.out).to_string();
                if d.is_empty() || d == base {
                    rel(&s.out)
                } else {
                    let last = d.rsplit('/').next().unwrap_or("").to_string();
                    let rd = rel(&format!("{d}/_"));
                    let rd = rd.trim_end_matches("/_");
                    format!("{rd}/../{last}/{}", crate::names::file_name(&s.out))
                }
            }
            11 => {
                // a target without source
                (*rng.pick(&["missing.txt", "y.txt", "nothere/", "a.txtpp.b.c", "missing.txt.txtpp", "txtpp"])).to_string()
            }
            12 if !v.is_empty() => v[rng.below(v.len())].clone(),
            13 if a.n() > 0 => {
                // through the symlinked directory, if there is one and the source lives below it
                let link = p.entries.iter().find_map(|e| match e {
                    Entry::Symlink { path, .. } => Some(path.clone()),
                    _ => None,
                });
                let s = &a.sources[rng.below(a.n())];
                match link {
                    Some(l) => {
                        let real = format!("{}/", l.trim_end_matches("lnk").to_string() + "a");
                        if s.out.starts_with(&real) {
                            rel(&format!("{l}/{}", &s.out[real.len()..]))
                        } else {
                            rel(&s.out)
                        }
                    }
                    None => rel(&s.out),
                }
            }
            _ => {
                if a.n() > 0 {
                    rel(&a.sources[rng.below(a.n())].out)
                } else {
                    ".".into()
                }
            }
        };
        if !item.is_empty() {
            v.push(item);
        }
    }
    if v.is_empty() {
        v.push(".".into());
    }
    v
}

pub fn gen(prop: &str, seed: u64, index: u64, _tier: Tier) -> Case {
    let per = super::per_project(prop);
    let pi = index / per;
    let mut prng = rng_for(seed, prop, pi, "project");
    let mut rng = rng_for(seed, prop, index, "config");
    // process cwd differs from the base directory in a third of the projects; those carry no
    // run commands (where commands run is C17's subject)
    let cwd_differs = prng.chance(1, 3);
    let (project, base) = gen_tree(&mut prng, !cwd_differs);
    let inputs = gen_input_list(&mut rng, &project, &base);
    let recursive = rng.chance(1, 2);
    let clean = rng.chance(1, 4);
    let mut ops = vec![];
    let mk = |rng: &mut Rng, mode: ModeS, inputs: Vec<String>, recursive: bool, label: &str| {
        let mut cfg = RunCfg::simple(mode, &base, inputs, *rng.pick(&gen::KS));
        cfg.recursive = recursive;
        if cwd_differs {
            cfg.cwd = Some(if base.is_empty() { "a".to_string() } else { String::new() });
            cfg.base_relative = rng.chance(1, 2);
        }
        let s = rng.next();
        Op::Run {
            cfg,
            sched: gen::pick_sched(rng, s),
            label: label.to_string(),
        }
    };
    if clean {
        // everything built first (from the tree root, recursively)
        let mut full = mk(&mut rng, ModeS::Build, vec![".".into()], true, "setup-build");
        if let Op::Run { cfg, .. } = &mut full {
            cfg.base = String::new();
            cfg.cwd = None;
            cfg.base_relative = false;
        }
        ops.push(full);
        ops.push(mk(&mut rng, ModeS::Clean, inputs, recursive, "clean"));
    } else {
        ops.push(mk(&mut rng, ModeS::Build, inputs, recursive, "build"));
    }
    let mut project = project;
    if cwd_differs && base.is_empty() {
        project.add_dir("a");
    }
    // state kept from an earlier run in the same process must not matter: now and then the first
    // invocation is first run on a tree in which some sources do not exist yet
    let mut params = BTreeMap::new();
    if rng.chance(1, 8) {
        let a = analyze(&project);
        let hide: Vec<String> = a.sources.iter().filter(|_| rng.chance(1, 3)).map(|s| s.path.clone()).collect();
        if !hide.is_empty() {
            params.insert("warmup_without".to_string(), serde_json::to_string(&hide).unwrap());
        }
    }
    Case {
        property: prop.to_string(),
        variant: if clean { "clean".into() } else { "build".into() },
        seed,
        index,
        project,
        ops,
        params,
    }
}

pub fn run(case: &Case, ctx: &mut Ctx) -> CaseOutcome {
    let mut out = CaseOutcome::default();
    let mut rec = case.clone();
    if let Some(hide) = case.params.get("warmup_without").and_then(|s| serde_json::from_str::<Vec<String>>(s).ok()) {
        if let Some(Op::Run { cfg, sched, .. }) = case.ops.first() {
            let a = analyze(&case.project);
            let mut v = case.project.clone();
            for h in &hide {
                if let Some(i) = a.by_path.get(h) {
                    v.remove(h);
                    v.add_file(&a.sources[*i].out, B::s("written by hand before the source existed\n"));
                }
            }
            tree::plant(&ctx.env.root, &v);
            ctx.env.clear_run_vlog();
            let mut ws = sched.clone();
            ws.script = None;
            ws.strict = false;
            let warm = ctx.env.run(cfg, &ws, false);
            ctx.stats.count("config.warm_up_run_on_earlier_tree");
            if warm.poisoned {
                out.poisoned = true;
                out.recorded = Some(case.clone());
                return out;
            }
        }
    }
    let h = exec(case, ctx, &mut rec);
    out.poisoned = h.poisoned;
    if let Some(d) = &h.diverged {
        out.harness_error = Some(format!("replay divergence: {d}"));
        return out;
    }
    out.recorded = Some(rec);
    let mut dig = vec![];
    for r in &h.runs {
        dig.push(r.sim.log_hash());
        dig.push(tree::snap_hash(&r.after));
        out.trace.push(format!("--- {} ({}) verdict {}", r.label, r.cfg.mode.name(), r.sim.verdict.short()));
        out.trace.extend(tail(&r.sim.log, 30));
    }
    out.digest = mix(&dig);
    if h.poisoned {
        return out;
    }
    let last = match h.runs.last() {
        Some(r) => r,
        None => return out,
    };
    let p_before = tree::to_project(&last.before);
    let a = analyze(&p_before);
    let resolved = gen::r_inputs(&p_before, &a, &last.cfg.base, &last.cfg.inputs, last.cfg.recursive);
    let case_hash = mix(&[project_hash(&case.project), cfg_hash(&last.cfg), last.sim.actions_hash()]);
    ctx.stats.count(&format!("c11.mode.{}", last.cfg.mode.name()));
    if last.cfg.cwd.is_some() {
        ctx.stats.count("c11.base_differs_from_cwd");
    }
    if last.cfg.inputs.iter().any(|i| i.starts_with("@ROOT@")) {
        ctx.stats.count("c11.absolute_input");
    }
    if last.cfg.inputs.iter().any(|i| i.contains("..")) {
        ctx.stats.count("c11.dotdot_input");
    }
    match (&resolved, &last.sim.verdict) {
        (Resolved::Error(why), v) => {
            ctx.stats.count("c11.unresolvable_inputs");
            if v.is_ok() {
                out.violate(
                    "C11",
                    "missing-target-accepted",
                    format!(
                        "inputs {:?} name a target without source ({why}) but the run succeeded",
                        last.cfg.inputs
                    ),
                );
            }
        }
        (Resolved::Sources(named), v) => {
            let expect: BTreeSet<usize> = if last.cfg.mode == ModeS::Clean {
                named.clone()
            } else {
                a.closure(named)
            };
            if expect.len() >= 2 {
                ctx.stats.nontrivial.insert(case_hash);
            }
            if let Verdict::Err(e) = v {
                if e.contains("cannot resolve inputs") {
                    out.violate(
                        "C11",
                        "named-target-rejected",
                        format!(
                            "inputs {:?} all name existing sources/directories but were rejected: {}",
                            last.cfg.inputs,
                            err_brief(e)
                        ),
                    );
                }
            }
            if v.is_ok() {
                ctx.stats.count("c11.successful_runs");
                let d = tree::diff(&last.before, &last.after);
                if last.cfg.mode == ModeS::Build {
                    // tree was output-free: outputs exist exactly for `expect`, beside the source
                    for (i, s) in a.sources.iter().enumerate() {
                        let exists = matches!(last.after.get(&s.out), Some(Node::File { .. }));
                        let existed = last.before.contains_key(&s.out);
                        if expect.contains(&i) && !exists {
                            out.violate(
                                "C11",
                                "requested-source-not-built",
                                format!("{} is requested by inputs {:?} (recursive={}) but its output {} does not exist", s.path, last.cfg.inputs, last.cfg.recursive, s.out),
                            );
                        }
                        if !expect.contains(&i) && exists && !existed {
                            out.violate(
                                "C11",
                                "unrequested-source-built",
                                format!("{} is not requested by inputs {:?} (recursive={}) but its output {} was built", s.path, last.cfg.inputs, last.cfg.recursive, s.out),
                            );
                        }
                    }
                    let allowed: BTreeSet<String> = expect.iter().map(|i| a.sources[*i].out.clone()).collect();
                    for (p, ch) in &d {
                        if !allowed.contains(p) {
                            out.violate(
                                "C11",
                                "output-at-wrong-path",
                                format!("build of inputs {:?} {ch:?} {p}, which is not the output path of any requested source (expected outputs: {allowed:?})", last.cfg.inputs),
                            );
                        }
                    }
                    // markers: each requested source's command exactly once, others never
                    if last.cfg.cwd.is_none() {
                        for (i, s) in a.sources.iter().enumerate() {
                            for (id, _) in &s.markers {
                                let got = last.markers.get(id).copied().unwrap_or(0);
                                let want = if expect.contains(&i) { 1 } else { 0 };
                                if got != want {
                                    out.violate(
                                        "C11",
                                        if got > want { "source-processed-too-often" } else { "source-not-processed" },
                                        format!("command of {} ran {got} time(s), expected {want} for inputs {:?}", s.path, last.cfg.inputs),
                                    );
                                }
                            }
                        }
                    }
                } else if last.cfg.mode == ModeS::Clean {
                    let allowed: BTreeSet<String> = expect.iter().map(|i| a.sources[*i].out.clone()).collect();
                    for p in &allowed {
                        if last.after.contains_key(p) {
                            out.violate("C11", "named-output-not-cleaned", format!("clean of inputs {:?} left {p}", last.cfg.inputs));
                        }
                    }
                    for (p, ch) in &d {
                        if !allowed.contains(p) || *ch != Change::Deleted {
                            out.violate(
                                "C11",
                                "clean-touched-unnamed-path",
                                format!("clean of inputs {:?} (recursive={}) {ch:?} {p}", last.cfg.inputs, last.cfg.recursive),
                            );
                        }
                    }
                }
            }
        }
    }
    if ctx.stats.samples.len() < 4 && case.index % 61 == 0 {
        ctx.stats.samples.push(serde_json::json!({
            "index": case.index,
            "sources": a.sources.iter().map(|s| s.path.clone()).collect::<Vec<_>>(),
            "base": last.cfg.base, "cwd": last.cfg.cwd, "base_relative": last.cfg.base_relative,
            "inputs": last.cfg.inputs, "recursive": last.cfg.recursive, "mode": last.cfg.mode.name(),
            "verdict": last.sim.verdict.short(),
            "actions": last.sim.actions,
        }));
    }
    out
}
