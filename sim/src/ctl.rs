//! The controller: real txtpp threads parked at hook points, released one at a time.
use crate::model::{Policy, Sched};
use crate::rng::{fnv, hash_str, mix, Rng};
use crate::tree::{snapshot, Snap};
use std::collections::{BTreeMap, BTreeSet};
use std::path::{Path, PathBuf};
use std::sync::{Arc, Condvar, Mutex};
use std::time::{Duration, Instant};
use txtpp::verif::{Controller, Outcome, Task, TaskKind};

#[derive(Debug, Clone, Copy, PartialEq, Eq)]
enum TS {
    Queued,
    AtBegin,
    AtIo,
    Running,
    AtEnd,
    Sending,
    /// released to send its result and not back within two seconds of real time: blocked in
    /// `send` (cannot happen with the unbounded channel txtpp uses; a changed tree might)
    BlockedSend,
    Exited,
}

#[derive(Debug, Clone, Copy, PartialEq, Eq)]
enum CS {
    Running,
    AtPoll,
    InJoin,
    Returned,
}

struct TaskInfo {
    state: TS,
    spawn_idx: usize,
    file: String,
}

struct St {
    base: PathBuf,
    k: usize,
    fine: bool,
    aborting: bool,
    tasks: BTreeMap<String, TaskInfo>,
    names: BTreeMap<u64, String>,
    coord: CS,
    in_drop: bool,
    sent: usize,
    received: usize,
    release: Option<String>,
    log: Vec<String>,
    idle_ms: u64,
    worker_panics: Vec<String>,
    order_rng: Rng,
    // facts for probes / coverage
    done_files: BTreeSet<String>,
    deps_of: BTreeMap<String, usize>,
    probes: BTreeMap<&'static str, u64>,
    last_poll: (usize, usize),
    coord_states: BTreeSet<u64>,
    err_received: bool,
}

pub struct Sim {
    st: Mutex<St>,
    cv: Condvar,
}

fn rel(base: &Path, p: &Path) -> String {
    crate::tree::rel_name(p.strip_prefix(base).unwrap_or(p))
}

impl Sim {
    fn name(&self, st: &mut St, t: &Task) -> String {
        if let Some(n) = st.names.get(&t.seq) {
            return n.clone();
        }
        let k = match t.kind {
            TaskKind::ScanDir => "D",
            TaskKind::FirstPass => "F",
            TaskKind::SecondPass => "S",
        };
        let base = format!("{k}:{}", rel(&st.base, &t.path));
        let mut occ = 0;
        let mut n = base.clone();
        while st.tasks.contains_key(&n) {
            occ += 1;
            n = format!("{base}#{occ}");
        }
        st.names.insert(t.seq, n.clone());
        n
    }

    fn park(&self, me: &str) {
        let mut st = self.st.lock().unwrap();
        self.cv.notify_all();
        loop {
            if st.aborting {
                if me == "coord" {
                    // a hung run is abandoned: this thread stays parked for good
                    loop {
                        st = self.cv.wait(st).unwrap();
                    }
                }
                return;
            }
            if st.release.as_deref() == Some(me) {
                st.release = None;
                return;
            }
            st = self.cv.wait(st).unwrap();
        }
    }

    fn probe(st: &mut St, name: &'static str) {
        *st.probes.entry(name).or_insert(0) += 1;
    }
}

impl Controller for Sim {
    fn task_spawned(&self, t: &Task) {
        let mut st = self.st.lock().unwrap();
        let n = self.name(&mut st, t);
        let idx = st.tasks.len();
        let file = rel(&st.base, &t.path);
        st.tasks.insert(
            n.clone(),
            TaskInfo {
                state: TS::Queued,
                spawn_idx: idx,
                file,
            },
        );
        st.log.push(format!("spawn {n}"));
    }
    fn task_begin(&self, t: &Task) {
        let n = {
            let mut st = self.st.lock().unwrap();
            let n = self.name(&mut st, t);
            if let Some(ti) = st.tasks.get_mut(&n) {
                ti.state = TS::AtBegin;
            }
            n
        };
        self.park(&n);
    }
    fn task_io(&self, t: &Task, op: &'static str) {
        let n = {
            let mut st = self.st.lock().unwrap();
            if !st.fine || st.aborting {
                return;
            }
            let n = self.name(&mut st, t);
            if let Some(ti) = st.tasks.get_mut(&n) {
                ti.state = TS::AtIo;
            }
            st.log.push(format!("io {n} {op}"));
            n
        };
        self.park(&n);
    }
    fn task_end(&self, t: &Task, o: &Outcome) {
        let n = {
            let mut st = self.st.lock().unwrap();
            let n = self.name(&mut st, t);
            if let Some(ti) = st.tasks.get_mut(&n) {
                ti.state = TS::AtEnd;
            }
            let o = match o {
                Outcome::HasDeps(d) => format!(
                    "HasDeps{:?}",
                    d.iter().map(|p| rel(&st.base, p)).collect::<Vec<_>>()
                ),
                x => format!("{x:?}"),
            };
            st.log.push(format!("end {n} {o}"));
            n
        };
        self.park(&n);
    }
    fn task_exit(&self, t: &Task, panicked: bool) {
        let mut st = self.st.lock().unwrap();
        let n = self.name(&mut st, t);
        if let Some(ti) = st.tasks.get_mut(&n) {
            ti.state = TS::Exited;
        }
        if panicked {
            st.worker_panics.push(n.clone());
        } else {
            st.sent += 1;
        }
        st.log.push(format!("exit {n} panicked={panicked}"));
        self.cv.notify_all();
    }
    fn coordinator_poll(&self, done: usize, total: usize, in_drop: bool) {
        {
            let mut st = self.st.lock().unwrap();
            st.coord = CS::AtPoll;
            st.in_drop = in_drop;
            st.last_poll = (done, total);
            st.log.push(format!("poll {done}/{total} drop={in_drop}"));
            let mut h = vec![done as u64, total as u64, in_drop as u64];
            for f in &st.done_files {
                h.push(hash_str(f));
            }
            h.push(0xabcd);
            for (n, ti) in &st.tasks {
                if ti.state != TS::Exited {
                    h.push(hash_str(n) ^ (ti.state as u64));
                }
            }
            let hv = mix(&h);
            st.coord_states.insert(hv);
        }
        self.park("coord");
    }
    fn coordinator_idle(&self, millis: u64) -> bool {
        let mut st = self.st.lock().unwrap();
        st.idle_ms += millis;
        st.log.push("idle".into());
        true
    }
    fn result_received(&self, o: &Outcome, path: &Path) {
        let mut st = self.st.lock().unwrap();
        st.received += 1;
        let r = rel(&st.base, path);
        let in_flight = st
            .tasks
            .values()
            .any(|t| !matches!(t.state, TS::Exited));
        let os = match o {
            Outcome::HasDeps(d) => {
                let n_done = d
                    .iter()
                    .filter(|p| st.done_files.contains(&rel(&st.base, p)))
                    .count();
                if n_done > 0 {
                    Sim::probe(&mut st, "hasdeps_with_dep_already_done");
                }
                if n_done == d.len() {
                    Sim::probe(&mut st, "hasdeps_all_deps_already_done");
                }
                let uniq: BTreeSet<_> = d.iter().collect();
                st.deps_of.insert(r.clone(), uniq.len());
                "HasDeps".to_string()
            }
            Outcome::Done => {
                st.done_files.insert(r.clone());
                "Done".to_string()
            }
            Outcome::Err => {
                st.err_received = true;
                if in_flight {
                    Sim::probe(&mut st, "error_received_with_tasks_in_flight");
                }
                "Err".to_string()
            }
            Outcome::ScanOk => "ScanOk".to_string(),
        };
        st.log.push(format!("recv {os} {r}"));
    }
    fn order_paths(&self, site: &'static str, v: Vec<PathBuf>) -> Vec<usize> {
        let mut st = self.st.lock().unwrap();
        let mut idx: Vec<usize> = (0..v.len()).collect();
        idx.sort_by(|a, b| v[*a].cmp(&v[*b]));
        st.order_rng.shuffle(&mut idx);
        if site == "released" {
            for p in &v {
                let r = rel(&st.base, p);
                if st.deps_of.get(&r).copied().unwrap_or(0) >= 2 {
                    Sim::probe(&mut st, "released_depender_with_2plus_deps");
                }
            }
            if v.len() >= 2 {
                Sim::probe(&mut st, "released_2plus_dependers_at_once");
            }
        }
        let names: Vec<String> = idx.iter().map(|i| rel(&st.base, &v[*i])).collect();
        st.log.push(format!("order {site} {names:?}"));
        idx
    }
    fn join(&self, begin: bool) {
        let mut st = self.st.lock().unwrap();
        st.coord = if begin { CS::InJoin } else { CS::Running };
        st.log.push(format!("join begin={begin}"));
        self.cv.notify_all();
    }
}

fn quiescent(st: &St) -> bool {
    if st.release.is_some() {
        return false;
    }
    if st.coord == CS::Running {
        return false;
    }
    let mut busy = 0;
    let mut queued = 0;
    for t in st.tasks.values() {
        match t.state {
            TS::Running | TS::Sending => return false,
            TS::AtBegin | TS::AtEnd | TS::AtIo | TS::BlockedSend => busy += 1,
            TS::Queued => queued += 1,
            TS::Exited => {}
        }
    }
    if st.coord == CS::Returned {
        return true;
    }
    let idle = st.k.saturating_sub(busy);
    if idle.min(queued) != 0 {
        return false;
    }
    // threadpool.join() returns by itself once no task is left: the coordinator is then running
    if st.coord == CS::InJoin && busy == 0 && queued == 0 {
        return false;
    }
    true
}

#[derive(Clone, Debug, PartialEq, Eq)]
pub enum Verdict {
    Ok,
    Err(String),
    /// the thread that called Txtpp::run panicked
    Panic(String),
    /// the run never returned (livelock, step cap or watchdog); see SimOut::hang
    Hung,
}

impl Verdict {
    pub fn is_ok(&self) -> bool {
        matches!(self, Verdict::Ok)
    }
    pub fn is_err(&self) -> bool {
        matches!(self, Verdict::Err(_))
    }
    pub fn short(&self) -> &'static str {
        match self {
            Verdict::Ok => "Ok",
            Verdict::Err(_) => "Err",
            Verdict::Panic(_) => "Panic",
            Verdict::Hung => "Hung",
        }
    }
}

pub struct SimOut {
    pub verdict: Verdict,
    pub log: Vec<String>,
    pub actions: Vec<String>,
    pub steps: usize,
    pub idle_ms: u64,
    pub idle_polls: usize,
    pub hang: Option<String>,
    pub worker_panics: Vec<String>,
    pub diverged: Option<String>,
    /// snapshot of the tree before each action (index = step), if requested
    pub snaps: Vec<Snap>,
    pub probes: BTreeMap<&'static str, u64>,
    pub coord_states: BTreeSet<u64>,
    pub n_tasks: usize,
    /// pool tasks that were still inside their job when Txtpp::run returned
    pub late_tasks: Vec<String>,
    /// process is no longer safe to continue in (threads left parked)
    pub poisoned: bool,
}

impl SimOut {
    pub fn log_hash(&self) -> u64 {
        let mut h = 0u64;
        for l in &self.log {
            h = h.rotate_left(5) ^ fnv(l.as_bytes());
        }
        h
    }
    pub fn actions_hash(&self) -> u64 {
        let mut h = 0u64;
        for l in &self.actions {
            h = h.rotate_left(5) ^ fnv(l.as_bytes());
        }
        h
    }
}

struct Act {
    name: String,
    is_coord: bool,
    spawn_idx: usize,
    file: String,
}

struct Chooser {
    rng: Rng,
    seed: u64,
    policy: Policy,
    script: Option<Vec<String>>,
    strict: bool,
    ptr: usize,
    change_points: Vec<usize>,
    epoch: u64,
}

impl Chooser {
    fn new(s: &Sched) -> Chooser {
        let mut rng = Rng::stream(s.seed, "schedule");
        let mut cps = vec![];
        if s.policy == Policy::Priority {
            let d = rng.below(4);
            for _ in 0..d {
                cps.push(rng.range(1, 40));
            }
        }
        Chooser {
            rng,
            seed: s.seed,
            policy: s.policy,
            script: s.script.clone(),
            strict: s.strict,
            ptr: 0,
            change_points: cps,
            epoch: 0,
        }
    }

    /// Returns index into `enabled`, or Err(divergence message)
    fn choose(&mut self, step: usize, enabled: &[Act]) -> Result<usize, String> {
        if let Some(script) = &self.script {
            if self.strict {
                if self.ptr >= script.len() {
                    return Err(format!(
                        "script exhausted at step {step}, enabled {:?}",
                        enabled.iter().map(|a| &a.name).collect::<Vec<_>>()
                    ));
                }
                let want = &script[self.ptr];
                self.ptr += 1;
                return enabled
                    .iter()
                    .position(|a| &a.name == want)
                    .ok_or_else(|| {
                        format!(
                            "step {step}: scripted action {want} not enabled; enabled {:?}",
                            enabled.iter().map(|a| &a.name).collect::<Vec<_>>()
                        )
                    });
            }
            // preference order with canonical fallback
            while self.ptr < script.len() {
                let want = &script[self.ptr];
                self.ptr += 1;
                if let Some(i) = enabled.iter().position(|a| &a.name == want) {
                    return Ok(i);
                }
            }
            // canonical: lowest-named task action first, coordinator last
            let mut best = 0;
            for (i, a) in enabled.iter().enumerate() {
                let (ba, bb) = (&enabled[best], a);
                if (bb.is_coord, &bb.name) < (ba.is_coord, &ba.name) {
                    best = i;
                }
            }
            return Ok(best);
        }
        if self.change_points.contains(&step) {
            self.epoch += 1;
        }
        let coord = enabled.iter().position(|a| a.is_coord);
        let tasks: Vec<usize> = (0..enabled.len()).filter(|i| !enabled[*i].is_coord).collect();
        let r = match self.policy {
            Policy::Uniform => self.rng.below(enabled.len()),
            Policy::Priority => {
                let mut best = 0;
                let mut bp = 0u64;
                for (i, a) in enabled.iter().enumerate() {
                    let key = if a.is_coord { "coord" } else { a.file.as_str() };
                    let p = mix(&[self.seed, hash_str(key), self.epoch]);
                    if i == 0 || p > bp {
                        best = i;
                        bp = p;
                    }
                }
                // a little noise so that equal-priority phases still vary
                if self.rng.chance(1, 10) {
                    self.rng.below(enabled.len())
                } else {
                    best
                }
            }
            Policy::CoordStarved => {
                if tasks.is_empty() || (coord.is_some() && self.rng.chance(1, 16)) {
                    coord.unwrap_or(0)
                } else {
                    tasks[self.rng.below(tasks.len())]
                }
            }
            Policy::CoordEager => {
                if let (Some(c), true) = (coord, tasks.is_empty() || self.rng.chance(3, 4)) {
                    c
                } else if tasks.is_empty() {
                    0
                } else {
                    tasks[self.rng.below(tasks.len())]
                }
            }
            Policy::Lifo | Policy::Fifo => {
                if let (Some(c), true) = (coord, tasks.is_empty() || self.rng.chance(1, 3)) {
                    c
                } else if tasks.is_empty() {
                    0
                } else {
                    let mut best = tasks[0];
                    for i in &tasks {
                        let better = if self.policy == Policy::Lifo {
                            enabled[*i].spawn_idx > enabled[best].spawn_idx
                        } else {
                            enabled[*i].spawn_idx < enabled[best].spawn_idx
                        };
                        if better {
                            best = *i;
                        }
                    }
                    best
                }
            }
        };
        Ok(r)
    }
}

pub struct SimOpts<'a> {
    /// take a snapshot of this directory before every action
    pub snap_root: Option<&'a Path>,
    /// real-time watchdog for one quiescence wait
    pub watchdog: Duration,
    /// more pool tasks than this = runaway (a file gets at most two passes, a directory one scan)
    pub max_tasks: usize,
}

impl Default for SimOpts<'_> {
    fn default() -> Self {
        SimOpts {
            snap_root: None,
            watchdog: Duration::from_secs(60),
            max_tasks: 400,
        }
    }
}

/// Run txtpp once under the controller. `base` is only used to shorten task names.
pub fn simulate(base: &Path, cfg: txtpp::Config, sched: &Sched, opts: &SimOpts) -> SimOut {
    let k = cfg.num_threads;
    let sim = Arc::new(Sim {
        st: Mutex::new(St {
            base: base.to_path_buf(),
            k,
            fine: sched.fine,
            aborting: false,
            tasks: BTreeMap::new(),
            names: BTreeMap::new(),
            coord: CS::Running,
            in_drop: false,
            sent: 0,
            received: 0,
            release: None,
            log: vec![],
            idle_ms: 0,
            worker_panics: vec![],
            order_rng: Rng::stream(sched.seed, "order"),
            done_files: BTreeSet::new(),
            deps_of: BTreeMap::new(),
            probes: BTreeMap::new(),
            last_poll: (0, 0),
            coord_states: BTreeSet::new(),
            err_received: false,
        }),
        cv: Condvar::new(),
    });
    let result: Arc<Mutex<Option<Verdict>>> = Arc::new(Mutex::new(None));
    let (s2, r2) = (sim.clone(), result.clone());
    let h = std::thread::Builder::new()
        .name("coordinator".into())
        .spawn(move || {
            let c: Arc<dyn Controller> = s2.clone();
            let g = txtpp::verif::install(c);
            let r = std::panic::catch_unwind(std::panic::AssertUnwindSafe(|| txtpp::Txtpp::run(cfg)));
            drop(g);
            let v = match r {
                Ok(Ok(())) => Verdict::Ok,
                Ok(Err(e)) => Verdict::Err(format!("{e:?}")),
                Err(p) => {
                    let msg = if let Some(s) = p.downcast_ref::<&str>() {
                        s.to_string()
                    } else if let Some(s) = p.downcast_ref::<String>() {
                        s.clone()
                    } else {
                        "panic".to_string()
                    };
                    Verdict::Panic(msg)
                }
            };
            let mut st = s2.st.lock().unwrap();
            st.coord = CS::Returned;
            st.log.push(format!("return {}", v.short()));
            *r2.lock().unwrap() = Some(v);
            s2.cv.notify_all();
        })
        .expect("spawn coordinator");

    let mut chooser = Chooser::new(sched);
    let straggler_step = (Rng::stream(sched.seed, "straggler").next() % 14) as usize;
    let mut steps = 0usize;
    let mut io_steps = 0usize;
    let mut idle_streak = 0usize;
    let mut idle_polls = 0usize;
    let mut dead_main = 0usize;
    let mut dead_drop = 0usize;
    let mut hang: Option<String> = None;
    let mut diverged: Option<String> = None;
    let mut actions: Vec<String> = vec![];
    let mut snaps: Vec<Snap> = vec![];

    loop {
        let mut st = sim.st.lock().unwrap();
        // real-time limits are counted in 250 ms waits that really timed out, not in elapsed wall
        // time: a machine that was suspended or stalled does not turn into a verdict
        let mut ticks: u32 = 0;
        let wd_ticks = (opts.watchdog.as_millis() / 250).max(1) as u32;
        while !quiescent(&st) {
            let (g, to) = sim.cv.wait_timeout(st, Duration::from_millis(250)).unwrap();
            st = g;
            if quiescent(&st) {
                break;
            }
            if to.timed_out() {
                ticks += 1;
            }
            if to.timed_out() && ticks > 8 {
                // nobody is running except tasks that were released to send: they are blocked in send
                let others_running = st.coord == CS::Running
                    || st.release.is_some()
                    || st.tasks.values().any(|t| t.state == TS::Running);
                let senders: Vec<String> = st
                    .tasks
                    .iter()
                    .filter(|(_, t)| t.state == TS::Sending)
                    .map(|(n, _)| n.clone())
                    .collect();
                if !others_running && !senders.is_empty() {
                    for n in senders {
                        if let Some(t) = st.tasks.get_mut(&n) {
                            t.state = TS::BlockedSend;
                        }
                        st.log.push(format!("blocked-in-send {n}"));
                    }
                    continue;
                }
            }
            if to.timed_out() && ticks > wd_ticks {
                hang = Some(format!(
                    "watchdog: no quiescence after {:?}; coord {:?}; tasks {:?}",
                    opts.watchdog,
                    st.coord,
                    st.tasks
                        .iter()
                        .filter(|(_, t)| t.state != TS::Exited)
                        .map(|(n, t)| format!("{n}={:?}", t.state))
                        .collect::<Vec<_>>()
                ));
                break;
            }
        }
        if hang.is_some() {
            st.aborting = true;
            sim.cv.notify_all();
            break;
        }
        if st.coord == CS::Returned {
            break;
        }
        if steps >= straggler_step {
            if let Some(names) = stragglers_pending() {
                // everybody of this run is parked: the stragglers of the previous run finish now
                st.log.push(format!("stragglers of the previous run released: {names:?}"));
                drop(st);
                if !drain_stragglers() {
                    hang = Some("a task of the previous run did not finish within 10 s".into());
                }
                continue;
            }
        }
        let mut enabled: Vec<Act> = vec![];
        for (n, t) in &st.tasks {
            if matches!(t.state, TS::AtBegin | TS::AtEnd | TS::AtIo) {
                enabled.push(Act {
                    name: n.clone(),
                    is_coord: false,
                    spawn_idx: t.spawn_idx,
                    file: t.file.clone(),
                });
            }
        }
        let pending = st.sent - st.received;
        let blocked_senders = st.tasks.values().any(|t| t.state == TS::BlockedSend);
        let work_left = !enabled.is_empty() || blocked_senders;
        let mut coord_kind = "";
        if st.coord == CS::AtPoll {
            if pending > 0 {
                coord_kind = "recv";
            } else if work_left {
                if idle_streak < 3 {
                    coord_kind = "idle";
                }
            } else {
                coord_kind = "final";
            }
            if !coord_kind.is_empty() {
                enabled.push(Act {
                    name: "coord".into(),
                    is_coord: true,
                    spawn_idx: usize::MAX,
                    file: String::new(),
                });
            }
        }
        if enabled.is_empty() && blocked_senders {
            // give a sender that was merely slow a chance before calling it a deadlock
            let n0 = st.log.len();
            let (g, _) = sim.cv.wait_timeout(st, Duration::from_secs(5)).unwrap();
            st = g;
            if st.log.len() != n0 {
                continue;
            }
        }
        if enabled.is_empty() {
            hang = Some(format!(
                "deadlock: nothing enabled; coord {:?}; tasks {:?}",
                st.coord,
                st.tasks
                    .iter()
                    .filter(|(_, t)| t.state != TS::Exited)
                    .map(|(n, t)| format!("{n}={:?}", t.state))
                    .collect::<Vec<_>>()
            ));
            st.aborting = true;
            sim.cv.notify_all();
            break;
        }
        if coord_kind == "final" {
            // nothing in flight, nothing in the channel: the coordinator must leave the loop it
            // is in (main loop, then the drain loop in Drop) on this very poll
            let c = if st.in_drop {
                &mut dead_drop
            } else {
                &mut dead_main
            };
            *c += 1;
            if *c > 1 {
                hang = Some(format!(
                    "livelock: coordinator keeps polling at {}/{} (drop={}) with an empty channel and no task left",
                    st.last_poll.0, st.last_poll.1, st.in_drop
                ));
                st.log.push("HANG livelock".into());
                st.aborting = true;
                sim.cv.notify_all();
                break;
            }
        }
        let cap = 40 + 12 * st.tasks.len().max(1);
        if st.tasks.len() > opts.max_tasks {
            hang = Some(format!(
                "task cap exceeded: {} pool tasks spawned (limit {} for this project)",
                st.tasks.len(),
                opts.max_tasks
            ));
        } else if steps - io_steps - idle_polls > cap {
            hang = Some(format!("step cap {cap} exceeded with {} tasks", st.tasks.len()));
        }
        if hang.is_some() {
            st.aborting = true;
            sim.cv.notify_all();
            break;
        }
        if let Some(root) = opts.snap_root {
            drop(st);
            snaps.push(snapshot(root));
            st = sim.st.lock().unwrap();
        }
        let pick = match chooser.choose(steps, &enabled) {
            Ok(i) => i,
            Err(m) => {
                diverged = Some(m);
                st.aborting = true;
                sim.cv.notify_all();
                break;
            }
        };
        let a = &enabled[pick];
        if a.is_coord {
            match coord_kind {
                "idle" => {
                    idle_streak += 1;
                    idle_polls += 1;
                    Sim::probe(&mut st, "idle_poll_with_work_in_flight");
                }
                "recv" => {
                    idle_streak = 0;
                    if pending >= 2 {
                        Sim::probe(&mut st, "two_results_pending_at_poll");
                    }
                }
                _ => {}
            }
            st.coord = CS::Running;
        } else {
            idle_streak = 0;
            let ti = st.tasks.get_mut(&a.name).unwrap();
            if ti.state == TS::AtIo {
                io_steps += 1;
            }
            ti.state = if ti.state == TS::AtEnd {
                TS::Sending
            } else {
                TS::Running
            };
        }
        st.log.push(format!("ACT {}", a.name));
        actions.push(a.name.clone());
        st.release = Some(a.name.clone());
        steps += 1;
        sim.cv.notify_all();
    }

    if let Some(names) = stragglers_pending() {
        // the run was shorter than the release step: they finish now
        if let Ok(mut st) = sim.st.lock() {
            st.log.push(format!("stragglers of the previous run released after the run: {names:?}"));
        }
        if !drain_stragglers() && hang.is_none() {
            hang = Some("a task of the previous run did not finish within 10 s".into());
        }
    }
    let mut poisoned = hang.is_some() || diverged.is_some();
    // the run has returned: no pool task may still be inside its job (Drop joins the pool)
    let mut late_tasks: Vec<String> = vec![];
    if !poisoned {
        let mut st = sim.st.lock().unwrap();
        late_tasks = st
            .tasks
            .iter()
            .filter(|(_, t)| matches!(t.state, TS::AtBegin | TS::AtIo | TS::AtEnd | TS::Running | TS::Sending | TS::BlockedSend))
            .map(|(n, _)| n.clone())
            .collect();
        if !late_tasks.is_empty() && HOLD.load(std::sync::atomic::Ordering::SeqCst) && stragglers_pending().is_none() {
            // another run of the same case follows: they stay parked until a step of that run
            st.log.push(format!("run returned with tasks still in their job, held for the next run: {late_tasks:?}"));
            drop(st);
            if let Ok(mut g) = PENDING.lock() {
                *g = Some(Pending {
                    sim: sim.clone(),
                    names: late_tasks.clone(),
                });
            }
        } else if !late_tasks.is_empty() {
            // let them go and see what they do (a send into a closed channel panics)
            st.aborting = true;
            st.log.push(format!("run returned with tasks still in their job: {late_tasks:?}"));
            sim.cv.notify_all();
            let t0 = Instant::now();
            loop {
                let live = st
                    .tasks
                    .values()
                    .any(|t| matches!(t.state, TS::AtBegin | TS::AtIo | TS::AtEnd | TS::Running | TS::Sending | TS::BlockedSend));
                if !live || t0.elapsed() > Duration::from_secs(10) {
                    if live {
                        poisoned = true;
                    }
                    break;
                }
                let (g, _) = sim.cv.wait_timeout(st, Duration::from_millis(50)).unwrap();
                st = g;
            }
        }
    }
    if !poisoned {
        let _ = h.join();
    } else {
        // give released workers a moment to drain, then abandon the coordinator thread
        std::thread::sleep(Duration::from_millis(20));
    }
    let st = sim.st.lock().unwrap();
    let verdict = if poisoned {
        Verdict::Hung
    } else {
        result.lock().unwrap().clone().unwrap_or(Verdict::Hung)
    };
    SimOut {
        verdict,
        log: st.log.clone(),
        actions,
        steps,
        idle_ms: st.idle_ms,
        idle_polls,
        hang,
        worker_panics: st.worker_panics.clone(),
        diverged,
        snaps,
        probes: st.probes.clone(),
        coord_states: st.coord_states.clone(),
        n_tasks: st.tasks.len(),
        late_tasks,
        poisoned,
    }
}

// ---------------------------------------------------------------------------- stragglers

/// Pool tasks of a run that has already returned (a changed tree may stop waiting for them).
/// They stay parked and are let go at a seeded scheduler step of the *next* simulated run of the
/// same case, where they do the rest of their job in one piece. Never populated on a tree whose
/// `Drop` joins the pool.
struct Pending {
    sim: Arc<Sim>,
    names: Vec<String>,
}

static PENDING: Mutex<Option<Pending>> = Mutex::new(None);
static HOLD: std::sync::atomic::AtomicBool = std::sync::atomic::AtomicBool::new(false);

/// Whether tasks that outlive the next simulated run are kept for the run after it.
pub fn hold_stragglers(on: bool) {
    HOLD.store(on, std::sync::atomic::Ordering::SeqCst);
}

/// Let every straggler finish now. Returns false if one of them did not finish within 10 s.
pub fn drain_stragglers() -> bool {
    let p = match PENDING.lock().ok().and_then(|mut g| g.take()) {
        Some(p) => p,
        None => return true,
    };
    let mut st = p.sim.st.lock().unwrap();
    st.aborting = true;
    p.sim.cv.notify_all();
    let mut ticks = 0;
    loop {
        let live = st
            .tasks
            .values()
            .any(|t| matches!(t.state, TS::AtBegin | TS::AtIo | TS::AtEnd | TS::Running | TS::Sending | TS::BlockedSend));
        if !live {
            return true;
        }
        if ticks > 200 {
            return false;
        }
        let (g, to) = p.sim.cv.wait_timeout(st, Duration::from_millis(50)).unwrap();
        st = g;
        if to.timed_out() {
            ticks += 1;
        }
    }
}

pub fn stragglers_pending() -> Option<Vec<String>> {
    PENDING.lock().ok().and_then(|g| g.as_ref().map(|p| p.names.clone()))
}

// ---------------------------------------------------------------------------- panic hook

static PANICS: Mutex<Vec<String>> = Mutex::new(Vec::new());

pub fn install_panic_hook() {
    std::panic::set_hook(Box::new(|info| {
        let th = std::thread::current();
        let name = th.name().unwrap_or("?").to_string();
        let loc = info
            .location()
            .map(|l| format!("{}:{}", l.file(), l.line()))
            .unwrap_or_default();
        let msg = if let Some(s) = info.payload().downcast_ref::<&str>() {
            s.to_string()
        } else if let Some(s) = info.payload().downcast_ref::<String>() {
            s.clone()
        } else {
            "?".to_string()
        };
        if let Ok(mut p) = PANICS.lock() {
            p.push(format!("thread={name} at {loc}: {msg}"));
        }
    }));
}

pub fn take_panics() -> Vec<String> {
    PANICS.lock().map(|mut p| std::mem::take(&mut *p)).unwrap_or_default()
}


// ---------------------------------------------------------------------------- logger

struct DiscardLogger;

impl log::Log for DiscardLogger {
    fn enabled(&self, _: &log::Metadata) -> bool {
        true
    }
    fn log(&self, _: &log::Record) {}
    fn flush(&self) {}
}

static LOGGER: DiscardLogger = DiscardLogger;

/// A host application may have a logger installed at any level: with this one every `log!`
/// macro in txtpp evaluates its arguments (and throws the record away).
pub fn install_discard_logger() {
    if log::set_logger(&LOGGER).is_ok() {
        log::set_max_level(log::LevelFilter::Trace);
    }
}
