//! Invariants over the recorded event log of one simulated run (the coordinator's protocol
//! against a small reference reading of it).
use std::collections::{BTreeMap, BTreeSet};

#[derive(Debug, Clone)]
pub struct TraceIssue {
    pub class: &'static str,
    pub message: String,
}

fn strip_occ(name: &str) -> (&str, bool) {
    match name.rsplit_once('#') {
        Some((base, n)) if n.chars().all(|c| c.is_ascii_digit()) && !n.is_empty() => (base, true),
        _ => (name, false),
    }
}

/// * a final pass of X is spawned only after `Done` has been received for every dependency X
///   reported, and at most once;
/// * a first pass of X is spawned at most once.
pub fn check(log: &[String]) -> Vec<TraceIssue> {
    let mut issues = vec![];
    let mut done: BTreeSet<String> = BTreeSet::new();
    let mut deps: BTreeMap<String, Vec<String>> = BTreeMap::new();
    let mut spawned: BTreeMap<String, usize> = BTreeMap::new();
    for l in log {
        if let Some(rest) = l.strip_prefix("end ") {
            // end F:path HasDeps["a", "b"]
            if let Some((task, outcome)) = rest.split_once(' ') {
                if let Some(list) = outcome.strip_prefix("HasDeps[") {
                    let (base, _) = strip_occ(task);
                    if let Some(path) = base.strip_prefix("F:") {
                        let ds: Vec<String> = list
                            .trim_end_matches(']')
                            .split(", ")
                            .map(|s| s.trim_matches('"').to_string())
                            .filter(|s| !s.is_empty())
                            .collect();
                        deps.insert(path.to_string(), ds);
                    }
                }
            }
        } else if let Some(rest) = l.strip_prefix("recv Done ") {
            done.insert(rest.to_string());
        } else if let Some(task) = l.strip_prefix("spawn ") {
            let (base, _) = strip_occ(task);
            *spawned.entry(base.to_string()).or_insert(0) += 1;
            let n = spawned[base];
            if let Some(path) = base.strip_prefix("S:") {
                if n > 1 {
                    issues.push(TraceIssue {
                        class: "final-pass-spawned-twice",
                        message: format!("the final pass of {path} was scheduled {n} times in one run"),
                    });
                }
                if let Some(ds) = deps.get(path) {
                    for d in ds {
                        if d != path && !done.contains(d) {
                            issues.push(TraceIssue {
                                class: "final-pass-before-dependency-finished",
                                message: format!(
                                    "the final pass of {path} was scheduled before its dependency {d} was reported finished"
                                ),
                            });
                        }
                    }
                }
            } else if let Some(path) = base.strip_prefix("F:") {
                if n > 1 {
                    issues.push(TraceIssue {
                        class: "first-pass-spawned-twice",
                        message: format!("the first pass of {path} was scheduled {n} times in one run"),
                    });
                }
            }
        }
    }
    issues
}
