//! Naming rule of txtpp sources and outputs, written from the README (shares no code with txtpp).

/// `foo.ext.txtpp`, `foo.txtpp.ext`, `foo.txtpp`: the last or second-to-last dot component is `txtpp`
/// and there is a non-empty stem before it.
pub fn is_source_name(file_name: &str) -> bool {
    out_name(file_name).is_some()
}

/// Output file name for a source file name (no directories), or None if not a source name.
pub fn out_name(file_name: &str) -> Option<String> {
    let parts: Vec<&str> = file_name.split('.').collect();
    let n = parts.len();
    if n >= 2 && parts[n - 1] == "txtpp" {
        let stem = parts[..n - 1].join(".");
        if stem.is_empty() {
            return None; // ".txtpp" is a hidden file, not a source
        }
        return Some(stem);
    }
    if n >= 3 && parts[n - 2] == "txtpp" {
        let stem = parts[..n - 2].join(".");
        if stem.is_empty() {
            return None; // ".txtpp.ext": hidden file named "txtpp" with extension
        }
        // std::path semantics: a trailing empty extension ("a.txtpp.") does not count
        if parts[n - 1].is_empty() {
            return None;
        }
        return Some(format!("{stem}.{}", parts[n - 1]));
    }
    None
}

pub fn file_name(path: &str) -> &str {
    match path.rsplit_once('/') {
        Some((_, f)) => f,
        None => path,
    }
}

/// Output path for a source path.
pub fn out_path(src: &str) -> Option<String> {
    let f = file_name(src);
    let o = out_name(f)?;
    Some(match src.rsplit_once('/') {
        Some((d, _)) => format!("{d}/{o}"),
        None => o,
    })
}

/// The two / one candidate source names for an output name.
pub fn source_candidates(out_file_name: &str) -> Vec<String> {
    match out_file_name.rsplit_once('.') {
        Some((stem, ext)) if !stem.is_empty() => vec![
            format!("{out_file_name}.txtpp"),
            format!("{stem}.txtpp.{ext}"),
        ],
        _ => vec![format!("{out_file_name}.txtpp")],
    }
}

#[cfg(test)]
mod t {
    use super::*;
    #[test]
    fn names() {
        assert_eq!(out_name("foo.txt.txtpp").as_deref(), Some("foo.txt"));
        assert_eq!(out_name("foo.txtpp.txt").as_deref(), Some("foo.txt"));
        assert_eq!(out_name("foo.txtpp").as_deref(), Some("foo"));
        assert_eq!(out_name("a.b.txtpp.c").as_deref(), Some("a.b.c"));
        assert_eq!(out_name("txtpp"), None);
        assert_eq!(out_name(".txtpp"), None);
        assert_eq!(out_name("a.txtpp.b.c"), None);
        assert_eq!(out_name("foo.txt"), None);
    }
}
