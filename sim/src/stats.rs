//! Coverage accounting that workers send to the driver.
use crate::ctl::SimOut;
use crate::model::{Case, Sched, Violation};
use serde::{Deserialize, Serialize};
use std::collections::{BTreeMap, BTreeSet};

#[derive(Clone, Debug, Default, Serialize, Deserialize)]
pub struct Stats {
    /// cases executed
    pub evaluations: u64,
    /// simulated txtpp invocations (a history case has several)
    pub sim_runs: u64,
    pub steps: u64,
    pub idle_ms: u64,
    pub counters: BTreeMap<String, u64>,
    /// distinct (graph shape, action list) hashes
    pub interleavings: BTreeSet<u64>,
    pub coord_states: BTreeSet<u64>,
    /// distinct hashes of non-trivial cases (rule is per engine)
    pub nontrivial: BTreeSet<u64>,
    pub samples: Vec<serde_json::Value>,
    /// determinism witness: xor-rotate of per-case digests, in index order per worker
    pub digests: BTreeMap<u64, u64>,
}

impl Stats {
    pub fn count(&mut self, k: &str) {
        *self.counters.entry(k.to_string()).or_insert(0) += 1;
    }
    pub fn add(&mut self, k: &str, n: u64) {
        *self.counters.entry(k.to_string()).or_insert(0) += n;
    }
    pub fn sim(&mut self, shape: u64, sched: &Sched, out: &SimOut) {
        self.sim_runs += 1;
        self.steps += out.steps as u64;
        self.idle_ms += out.idle_ms;
        self.interleavings
            .insert(crate::rng::mix(&[shape, out.actions_hash()]));
        for s in &out.coord_states {
            self.coord_states.insert(crate::rng::mix(&[shape, *s]));
        }
        self.count(&format!("policy.{:?}", sched.policy));
        if sched.fine {
            self.count("granularity.io_point");
        } else {
            self.count("granularity.task");
        }
        self.count(&format!("verdict.{}", out.verdict.short()));
        for (k, v) in &out.probes {
            self.add(&format!("probe.{k}"), *v);
        }
        if !out.late_tasks.is_empty() {
            self.count("probe.run_returned_with_tasks_in_flight");
        }
        if out.log.iter().any(|l| l.starts_with("run returned with tasks still in their job, held")) {
            self.count("probe.stragglers_held_for_next_run");
        }
        if out.log.iter().any(|l| l.starts_with("stragglers of the previous run released")) {
            self.count("probe.stragglers_released_inside_next_run");
        }
        if out.idle_polls > 0 {
            self.add("sched.idle_polls", out.idle_polls as u64);
        }
    }
    pub fn merge(&mut self, o: Stats) {
        self.evaluations += o.evaluations;
        self.sim_runs += o.sim_runs;
        self.steps += o.steps;
        self.idle_ms += o.idle_ms;
        for (k, v) in o.counters {
            *self.counters.entry(k).or_insert(0) += v;
        }
        self.interleavings.extend(o.interleavings);
        self.coord_states.extend(o.coord_states);
        self.nontrivial.extend(o.nontrivial);
        for s in o.samples {
            if self.samples.len() < 6 {
                self.samples.push(s);
            }
        }
        self.digests.extend(o.digests);
    }
}

/// What running one case produced.
#[derive(Clone, Debug, Default, Serialize, Deserialize)]
pub struct CaseOutcome {
    pub violation: Option<Violation>,
    pub trace: Vec<String>,
    /// threads were left parked: the worker process must be replaced
    pub poisoned: bool,
    /// replay divergence or other harness problem (exit 2)
    pub harness_error: Option<String>,
    /// the case with the schedules actually taken written in as strict scripts
    pub recorded: Option<Case>,
    pub digest: u64,
}

impl CaseOutcome {
    pub fn violate(&mut self, property: &str, class: &str, message: String) {
        if self.violation.is_none() {
            self.violation = Some(Violation {
                property: property.to_string(),
                class: class.to_string(),
                message,
            });
        }
    }
}
